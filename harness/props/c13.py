"""C13 — address text forms round-trip; friendly-form checksum enforced; equal addresses hash equally.

What is generated (see RULE) and what is asserted:
  * round trip (check_roundtrip): rendering equals the independent TEP-2 reference character for character, both text forms parse
    back into an equal address with the same flags, equal addresses hash equally / collapse in sets, whatever was rendered before.
    The enumerated part also contains DESIGNED addresses whose 48 friendly characters are all hexadecimal digits (a text that is
    well-formed under two readings: base64 and a hex number).
  * substitutions (check_subst): every single-character replacement is rejected (any exception).
  * origins (check_origins): the statement's "equal addresses hash equally" does not say where the address objects came from.
    The same (workchain, account) is obtained in every way the library hands out an Address - tuple, raw text, friendly text with
    these and with the opposite flags, Address(Address), Slice.load_address() of addr_std without and WITH an anycast prefix,
    to_cell()/store_address() and back, set_anycast() on a built / parsed address, a subclass instance, copy.deepcopy / pickle,
    an object that was printed - and every two of them that compare == must hash equally and be one key of a set / dict; each of
    them renders as the reference says and its text parses back into an address equal to it (both directions) with the same hash.
    An origin that cannot be built (exception in Builder / Slice) or that does not compare == to the tuple-built address is left
    out: cells are other properties' business, and the statement only speaks about EQUAL addresses.
  * histories (check_history): the case carries a list of earlier, sloppy-but-accepted or failing uses of the class in the same
    process - an account id that is not 32 bytes long (the constructor takes any length) rendered / printed / hashed / stored,
    a workchain outside int8, texts that are rejected (bad checksum, truncated, extended, the text of an odd-length account,
    garbage, non-strings), to_str with non-boolean flags, set_anycast, a parsed result whose attributes the caller edited.
    Results and exceptions of those uses are ignored (none of them is promised anything). After EVERY step the valid address of
    the case must still round-trip in all 8 variants + raw form (fresh objects and two objects made before the history), and the
    complete round-trip check runs at the end.  Signature = kind of the step after which it stopped holding + violated clause.

Deliberately NOT asserted: anything about addresses whose account id is not 32 bytes or whose workchain is outside -128..127
(only that using them does not disturb valid ones); that a text which is not a rendering of an address (e.g. 48 x 'A') is
rejected; which exception type a rejected text raises; the cell form of an address (C-properties on Builder/Slice).
"""
import hashlib

from hypothesis import strategies as st
from harness.core import Sub, Fail, call, describe, look, scramble
from harness.ref import refaddr

RULE = ('case = (workchain -128..127, 32-byte account id, bounceable, test_only, url_safe) and, for substitution '
        'cases, (position 0..47, replacement character of the base64 alphabet in use). round-trip sub-check covers all '
        '256 workchains x 8 variants plus designed addresses whose friendly text consists of hex digits only; substitution '
        'sub-check enumerates all 48x63 single-character replacements of generated addresses (one of them all-hex). '
        'origins cases add (anycast depth 1..30, prefix < 2^depth): the same address obtained through ~20 origins (tuple, raw / '
        'friendly text, copy, load_address with and without anycast, to_cell/store_address and back, set_anycast, subclass, '
        'deepcopy, pickle, printed) - pairwise ==/hash/set/dict agreement and text round trip of each. history cases add a list '
        'of 0..4 earlier uses (odd-length account ids 0..70 bytes, workchains outside int8, rejected texts, non-boolean flags, '
        'anycast, edited parse results; each with 1..3 follow-up uses: friendly/raw/repr/hash/eq/cell/reparse/copy/tl) after each '
        'of which the valid address must still round-trip; the grid part enumerates every single-step history over all '
        'lengths 0..40, 48, 64 x (tuple, raw text, edited parse result) x use. non-trivial = non-default flags, negative '
        'workchain, a substitution, an anycast prefix or a non-empty history; distinct = distinct case')
ASSUMPTIONS = ['harness/ref/refaddr.py (TEP-2 rendering) and refcrc bitwise CRC-16; python base64',
               'origins: Builder.store_bits/store_bit/store_uint/store_int/store_bytes and Slice.load_address only PRODUCE '
               'address objects (an origin that fails to build or is not == to the tuple-built address is skipped, not reported)']

STD = 'ABCDEFGHIJKLMNOPQRSTUVWXYZabcdefghijklmnopqrstuvwxyz0123456789+/'
URL = STD[:62] + '-_'


def _addr_eq(a, wc, acc):
    return a.wc == wc and a.hash_part == acc


def check_roundtrip(case):
    from pytoniq_core.boc.address import Address
    wc, acc = case['wc'], bytes.fromhex(case['acc'])
    b, t, u = case['bounce'], case['test'], case['url']
    base = Address((wc, acc))
    # rendering equals the reference, character for character
    ok, text = call(base.to_str, True, u, b, t)
    if not ok:
        return Fail('to_str/raises', repr(text))
    exp = refaddr.friendly(wc, acc, b, t, u)
    if text != exp:
        return Fail('to_str/friendly-differs-from-TEP2', f'{text} != {exp}')
    ok, rawtext = call(base.to_str, False)
    if not ok or rawtext != refaddr.raw(wc, acc):
        return Fail('to_str/raw-differs', f'{rawtext!r} != {refaddr.raw(wc, acc)}')
    # parsing either form yields an equal address with the same flags
    ok, p = call(Address, exp)
    if not ok:
        return Fail('parse/friendly-rejected', f'{exp}: {p!r}')
    if not _addr_eq(p, wc, acc) or not (p == base) or not (base == p):
        return Fail('parse/friendly-not-equal', f'{exp} -> wc={p.wc} hash={p.hash_part.hex()}')
    if bool(p.is_bounceable) != b or bool(p.is_test_only) != t:
        return Fail('parse/flags-lost', f'{exp}: bounceable={p.is_bounceable} test_only={p.is_test_only}, expected {b},{t}')
    ok, q = call(Address, refaddr.raw(wc, acc))
    if not ok:
        return Fail('parse/raw-rejected', f'{refaddr.raw(wc, acc)}: {q!r}')
    if not _addr_eq(q, wc, acc) or not (q == base):
        return Fail('parse/raw-not-equal', f'{refaddr.raw(wc, acc)} -> wc={q.wc} hash={q.hash_part.hex()}')
    if bool(q.is_bounceable) != bool(base.is_bounceable) or bool(q.is_test_only) != bool(base.is_test_only):
        return Fail('parse/raw-form-invents-flags', f'{refaddr.raw(wc, acc)}: bounceable={q.is_bounceable} test_only={q.is_test_only} '
                    f'(the raw form carries no flags; the address it was rendered from has {base.is_bounceable}, {base.is_test_only})')
    # equal addresses hash equally and collapse in sets
    ok, hs = call(lambda: (hash(base), hash(p), hash(q), hash(Address(base))))
    if not ok:
        return Fail('hash/raises', repr(hs))
    if len(set(hs)) != 1:
        return Fail('hash/equal-addresses-hash-differently', str(hs))
    if len({base, p, q}) != 1:
        return Fail('hash/set-does-not-collapse', '')
    # a copy (Address(Address)) of the parsed address, and the address rebuilt from its public parts, render like the original
    for nm, mk in (('copy-of-parsed', lambda: Address(p)), ('from-parts', lambda: Address((p.wc, p.hash_part))), ('copy-of-raw-parsed', lambda: Address(q))):
        ok, cp = call(mk)
        if not ok or not (cp == base) or hash(cp) != hash(base):
            return Fail(f'copy/{nm}-not-equal', f'{exp}: {cp!r}')
        ok, txt = call(cp.to_str, True, u, b, t)
        if not ok or txt != exp:
            return Fail(f'to_str/{nm}-differs-from-TEP2', f'{txt!r} != {exp}')
        ok, txt = call(cp.to_str, False)
        if not ok or txt != refaddr.raw(wc, acc):
            return Fail(f'to_str/{nm}-raw-differs', f'{txt!r}')
    # other addresses rendered in between, chosen so that anything that tells addresses apart by less than (workchain, account)
    # mixes them up: int(account) + workchain equal (neighbouring workchain, account shifted by one), and accounts that differ
    # by a multiple of 2^61 - 1 (the modulus python's hash() reduces integers by)
    ai = int.from_bytes(acc, 'big')
    M61 = (1 << 61) - 1
    for wc2, a2 in ((wc + 1 if wc < 127 else wc - 1, (ai - 1 if wc < 127 else ai + 1) % (1 << 256)), (wc, (ai + M61) % (1 << 256)),
                    (wc, (ai + 5 * M61) % (1 << 256)), (wc, (ai - M61) % (1 << 256))):
        acc2 = a2.to_bytes(32, 'big')
        other = Address((wc2, acc2))
        for v2 in ((b, t, u), (not b, t, u)):
            ok, txt = call(other.to_str, True, v2[2], v2[0], v2[1])
            want2 = refaddr.friendly(wc2, acc2, v2[0], v2[1], v2[2])
            if not ok or txt != want2:
                return Fail('to_str/another-address-rendered-as-an-earlier-one', f'after {exp} was rendered, {wc2}:{acc2.hex()} renders as {txt!r}, '
                            f'expected {want2}')
        ok, txt = call(base.to_str, True, u, b, t)
        if not ok or txt != exp:
            return Fail('to_str/depends-on-earlier-calls', f'{txt!r} != {exp} after another address was rendered')
    # re-rendering the parsed address with its own flags gives the same text
    ok, again = call(p.to_str, True, u, p.is_bounceable, p.is_test_only)
    if not ok or again != exp:
        return Fail('to_str/rerender-differs', f'{again!r} != {exp}')
    # the same object rendered in every other form afterwards (no result carried over from an earlier call), and the first
    # form once more
    for v in list(range(8)) + [None]:
        bb, tt, uu = (b, t, u) if v is None else (bool(v & 1), bool(v & 2), bool(v & 4))
        ok, txt = call(base.to_str, True, uu, bb, tt)
        want = refaddr.friendly(wc, acc, bb, tt, uu)
        if not ok or txt != want:
            return Fail('to_str/depends-on-earlier-calls', f'after other renderings of the same object: {txt!r} != {want}')
        ok, p2 = call(Address, want)
        if not ok or not _addr_eq(p2, wc, acc) or bool(p2.is_bounceable) != bb or bool(p2.is_test_only) != tt:
            return Fail('parse/depends-on-earlier-calls', f'{want}: {p2!r}')
        # the PARSED object rendered in every variant: the flags asked for decide, not the flags of the text it was parsed from
        for v2 in range(8):
            b2, t2, u2 = bool(v2 & 1), bool(v2 & 2), bool(v2 & 4)
            ok, txt = call(p2.to_str, True, u2, b2, t2)
            want2 = refaddr.friendly(wc, acc, b2, t2, u2)
            if not ok or txt != want2:
                return Fail('to_str/of-parsed-address-differs-from-TEP2',
                            f'Address({want!r}).to_str(is_user_friendly=True, is_url_safe={u2}, is_bounceable={b2}, is_test_only={t2}) '
                            f'= {txt!r}, expected {want2}')
        ok, txt = call(p2.to_str, False)
        if not ok or txt != refaddr.raw(wc, acc):
            return Fail('to_str/of-parsed-address-raw-differs', f'Address({want!r}).to_str(False) = {txt!r}')
    return None


def check_subst(case):
    from pytoniq_core.boc.address import Address
    wc, acc = case['wc'], bytes.fromhex(case['acc'])
    text = refaddr.friendly(wc, acc, case['bounce'], case['test'], case['url'])
    alpha = URL if case['url'] else STD
    pos = case['pos']
    repl = alpha[case['repl']]
    if repl == text[pos]:
        repl = alpha[(case['repl'] + 1) % 64]
    mutated = text[:pos] + repl + text[pos + 1:]
    ok, res = call(Address, mutated)
    if ok:
        return Fail('substitution-accepted', f'{text} -> {mutated} (pos {pos}) accepted as wc={res.wc} hash={res.hash_part.hex()}')
    return None


# ------------------------------------------------------------------------------------------------ origins of an address object
def _origins(case, Address, Builder):
    """(name, constructor) of every way the library hands out an address object for (wc, acc)"""
    import copy
    import pickle
    wc, acc = case['wc'], bytes.fromhex(case['acc'])
    b, t, u = case['bounce'], case['test'], case['url']
    d, pfx = case['depth'], case['pfx']
    rawt, fr = refaddr.raw(wc, acc), refaddr.friendly(wc, acc, b, t, u)

    class Derived(Address):
        pass

    def cell(anycast):
        bld = Builder().store_bits('10')      # addr_std$10 anycast:(Maybe Anycast) workchain_id:int8 address:bits256
        bld = bld.store_bit(1).store_uint(d, 5).store_uint(pfx, d) if anycast else bld.store_bit(0)
        return bld.store_int(wc, 8).store_bytes(acc).end_cell()

    def anyc(a):
        a.set_anycast(d, pfx)
        return a

    def printed(a):
        describe(a)
        return a

    return [
        ('tuple', lambda: Address((wc, acc))),
        ('raw-text', lambda: Address(rawt)),
        ('friendly-text', lambda: Address(fr)),
        ('friendly-text-opposite-flags', lambda: Address(refaddr.friendly(wc, acc, not b, not t, not u))),
        ('copy-of-parsed', lambda: Address(Address(fr))),
        ('loaded-from-cell', lambda: cell(False).begin_parse().load_address()),
        ('loaded-from-cell-with-anycast', lambda: cell(True).begin_parse().load_address()),
        ('to_cell-and-back', lambda: Address((wc, acc)).to_cell().begin_parse().load_address()),
        ('text-stored-and-loaded', lambda: Builder().store_address(fr).end_cell().begin_parse().load_address()),
        ('anycast-stored-and-loaded', lambda: anyc(Address(fr)).to_cell().begin_parse().load_address()),
        ('set_anycast-on-built', lambda: anyc(Address((wc, acc)))),
        ('set_anycast-on-parsed', lambda: anyc(Address(fr))),
        ('set_anycast-on-raw-parsed', lambda: anyc(Address(rawt))),
        ('copy-of-anycast', lambda: Address(anyc(Address(rawt)))),
        ('subclass-built', lambda: Derived((wc, acc))),
        ('subclass-parsed', lambda: Derived(fr)),
        ('copy-of-subclass', lambda: Address(Derived(rawt))),
        ('deepcopy', lambda: copy.deepcopy(Address(fr))),
        ('deepcopy-of-anycast', lambda: copy.deepcopy(anyc(Address((wc, acc))))),
        ('pickled', lambda: pickle.loads(pickle.dumps(Address(fr)))),
        ('pickled-anycast', lambda: pickle.loads(pickle.dumps(anyc(Address(rawt))))),
        ('printed', lambda: printed(Address(fr))),
        ('printed-anycast', lambda: printed(anyc(Address((wc, acc))))),
    ]


def check_origins(case):
    from pytoniq_core.boc.address import Address
    from pytoniq_core.boc.builder import Builder
    wc, acc = case['wc'], bytes.fromhex(case['acc'])
    b, t, u = case['bounce'], case['test'], case['url']
    exp, rawt = refaddr.friendly(wc, acc, b, t, u), refaddr.raw(wc, acc)
    ref_obj = Address((wc, acc))
    objs = []
    for name, mk in _origins(case, Address, Builder):
        ok, a = call(mk)
        if not ok or not isinstance(a, Address):
            continue                                     # cannot be obtained this way: nothing to compare
        ok, same = call(lambda: bool(a == ref_obj) and bool(ref_obj == a))
        if not ok or not same or a.wc != wc or a.hash_part != acc:
            continue                                     # not an EQUAL address: the statement does not speak about it
        objs.append((name, a))
    # every two equal addresses: ==, hash, set, dict
    hs = []
    for name, a in objs:
        ok, h = call(hash, a)
        if not ok:
            return Fail(f'hash/raises/{name}', repr(h))
        hs.append(h)
    for i, (n1, a1) in enumerate(objs):
        for j, (n2, a2) in enumerate(objs):
            if j <= i:
                continue
            ok, eq = call(lambda: bool(a1 == a2) and bool(a2 == a1))
            if not ok or not eq:
                continue
            kind = 'anycast' if (a1.anycast is None) != (a2.anycast is None) else 'subclass' if type(a1) is not type(a2) else 'plain'
            if hs[i] != hs[j]:
                return Fail(f'hash/equal-addresses-hash-differently/{kind}',
                            f'{exp}: address from {n1} == address from {n2}, hashes {hs[i]} != {hs[j]}')
            ok, found = call(lambda: (a1 in {a2}) and (a2 in {a1}) and {a1: 1}.get(a2) == 1 and len({a1, a2}) == 1)
            if not ok or not found:
                return Fail(f'hash/set-does-not-collapse/{kind}', f'{exp}: {n1} vs {n2}: {found!r}')
    # each of them renders as the reference says; its text parses into an address equal to IT, with the same hash and the flags
    for (name, a), h in zip(objs, hs):
        kind = 'anycast' if a.anycast is not None else 'subclass' if type(a) is not Address else 'plain'
        ok, txt = call(a.to_str, True, u, b, t)
        if not ok or txt != exp:
            return Fail(f'to_str/friendly-differs-from-TEP2/{kind}-origin', f'address from {name}: {txt!r} != {exp}')
        ok, txt = call(a.to_str, False)
        if not ok or txt != rawt:
            return Fail(f'to_str/raw-differs/{kind}-origin', f'address from {name}: {txt!r} != {rawt}')
        for form, text in (('friendly', exp), ('raw', rawt)):
            ok, back = call(Address, text)
            if not ok:
                return Fail(f'parse/{form}-rejected', f'{text}: {back!r}')
            ok, eq = call(lambda: bool(back == a) and bool(a == back))
            if not ok or not eq:
                return Fail(f'parse/{form}-not-equal/{kind}-origin', f'{text} parsed is not == the address from {name} it was rendered from')
            ok, h2 = call(hash, back)
            if not ok or h2 != h or not (back in {a}) or {a: 1}.get(back) != 1:
                return Fail(f'hash/equal-addresses-hash-differently/{kind}',
                            f'address from {name} rendered as {text} and parsed back: equal, but hashes {h} != {h2!r}')
            if form == 'friendly' and (bool(back.is_bounceable) != b or bool(back.is_test_only) != t):
                return Fail('parse/flags-lost', f'{text}: bounceable={back.is_bounceable} test_only={back.is_test_only}')
    return None


# -------------------------------------------------------------------------------- histories: earlier uses in the same process
USES = ('friendly', 'raw', 'repr', 'hash', 'eq', 'cell', 'reparse', 'copy', 'tl')
ODD_WCS = (128, 255, 256, -129, -256, 1000, 2 ** 31, 2 ** 63, 2 ** 64, -2 ** 63 - 1)
SLOPPY = (None, 0, 1, 2, -1, '', 'no', [], 0.5)
BAD_KINDS = ('crc', 'truncated', 'extended', 'padded', 'odd-account-text', 'garbage', 'nonstr', 'raw-odd', 'raw-nohash', 'raw-case',
             'bare-hex')
EDITS = ('scramble', 'account-longer', 'account-shorter', 'account-empty', 'account-bytearray', 'wc', 'flags', 'anycast')


def _use(a, uses, v, Address, other):
    """what a caller does with an address object it holds; results and exceptions are nobody's business here"""
    b, t, u = bool(v & 1), bool(v & 2), bool(v & 4)
    for w in uses:
        if w == 'friendly':
            call(a.to_str, True, u, b, t)
        elif w == 'raw':
            call(a.to_str, False)
        elif w == 'repr':
            look(a)
        elif w == 'hash':
            call(lambda: ({a: 1}, {a}, hash(a)))
        elif w == 'eq':
            call(lambda: (a == other, other == a, a != other))
        elif w == 'cell':
            ok, c = call(a.to_cell)
            if ok:
                call(lambda: c.begin_parse().load_address())
        elif w == 'reparse':
            for uf in (True, False):
                ok, txt = call(a.to_str, uf, u, b, t)
                if ok:
                    call(Address, txt)
        elif w == 'copy':
            ok, c = call(Address, a)
            if ok:
                call(c.to_str, True, u, b, t)
        elif w == 'tl':
            call(a.to_tl_account_id)


def _bad_text(op, wc, acc):
    k, n, s = op['kind'], op['n'], op['s']
    good = refaddr.friendly(wc, acc, bool(n & 1), bool(n & 2), bool(n & 4))
    if k == 'crc':
        alpha = URL if n & 4 else STD
        pos = 45 + n % 3
        return good[:pos] + alpha[(alpha.index(good[pos]) + 1 + n % 62) % 64] + good[pos + 1:]
    if k == 'truncated':
        return good[:n % 48]
    if k == 'extended':
        return good + s
    if k == 'padded':
        return good + '=' * (1 + n % 4)
    if k == 'odd-account-text':            # what to_str gives for an account id that is not 32 bytes long
        ln = n % 71
        return refaddr.friendly(wc, (acc * 3)[:ln if ln != 32 else 33], True, False, True)
    if k == 'garbage':
        return s
    if k == 'nonstr':
        return (None, n, acc, [good], 1.5, (wc,), (wc, acc.hex()), {'workchain': wc})[n % 8]
    if k == 'raw-odd':
        return f'{wc}:{(acc * 3)[:n % 71].hex()}' + ('0' if n & 128 else '')
    if k == 'raw-nohash':
        return (f'{wc}:', ':', f':{acc.hex()}', f'{wc}:{acc.hex()}:', f'{wc}:{acc.hex()}:0', f'0x{wc}:{acc.hex()}', f'{wc}.0:{acc.hex()}',
                f'{wc}:0x{acc.hex()[2:]}')[n % 8]
    if k == 'raw-case':
        return (f' {wc}:{acc.hex()}', f'{wc}:{acc.hex().upper()}', f'{wc}: {acc.hex()}', f'{wc}:{acc.hex()}\n', f'+{wc}:{acc.hex()}',
                f'{wc}:{acc.hex()[:-1]}_{acc.hex()[-1]}')[n % 6]
    if k == 'bare-hex':
        return (acc.hex(), acc.hex().upper(), '0x' + acc.hex(), acc.hex()[:48], acc.hex().lstrip('0') or '0', s)[n % 6]
    raise AssertionError(k)


def _step_kind(op):
    k = op['op']
    if k == 'odd-account':
        return 'account-longer-than-32' if op['len'] > 32 else 'account-shorter-than-32'
    if k == 'bad-text':
        return 'rejected-text:' + op['kind']
    if k == 'edit-result':
        return 'edited-parse-result:' + op['how']
    return k


def _run_step(op, ctx):
    Address, wc, acc = ctx['Address'], ctx['wc'], ctx['acc']
    k = op['op']
    owc = op.get('wc', wc)
    other_acc = hashlib.sha256(acc + b'other').digest()
    other = Address((wc, other_acc))
    if k == 'odd-account':
        oa = (bytes([op['fill']]) + acc * 3)[:op['len']]
        if op['via'] == 'tuple':
            ok, a = call(Address, (owc, oa))
        elif op['via'] == 'raw':
            ok, a = call(Address, f'{owc}:{oa.hex()}')
        else:                                  # the caller assigns to the public attribute of an address it parsed
            ok, a = call(Address, ctx['texts'][op['v']])
            if ok:
                a.hash_part = oa
        if ok:
            _use(a, op['use'], op['v'], Address, other)
    elif k == 'odd-wc':
        w = ODD_WCS[op['i'] % len(ODD_WCS)]
        ok, a = call(Address, (w, acc)) if op['via'] == 'tuple' else call(Address, f'{w}:{acc.hex()}')
        if ok:
            _use(a, op['use'], op['v'], Address, other)
    elif k == 'bad-text':
        src = (wc, acc) if op['of'] == 'same' else (owc, other_acc)
        ok, a = call(Address, _bad_text(op, *src))
        if ok and isinstance(a, Address):
            _use(a, op['use'], op['v'], Address, other)
    elif k == 'sloppy-flags':
        target = ctx['pb'] if op['of'] == 'same' else other
        args = [True, True, True, False]
        args[op['pos'] % 4] = SLOPPY[op['i'] % len(SLOPPY)]
        call(target.to_str, *args)
        call(lambda: target.to_str(is_user_friendly=args[0], is_url_safe=args[1], is_bounceable=args[2], is_test_only=args[3]))
    elif k == 'anycast':
        target = {'same': ctx['pb'], 'parsed': ctx['pp']}.get(op['of'], other)
        call(target.set_anycast, op['depth'], op['pfx'])
        _use(target, op['use'], op['v'], Address, other)
    elif k == 'edit-result':
        # what a parser returns belongs to the caller: edit it, use it - a later parse of the same text is a fresh result
        text = ctx['texts'][op['v']] if op['of'] == 'same' else refaddr.raw(wc, acc) if op['of'] == 'same-raw' else \
            refaddr.friendly(owc, other_acc, True, False, True)
        ok, a = call(Address, text)
        if ok:
            how = op['how']
            if how == 'scramble':
                scramble(a)
            elif how == 'account-longer':
                a.hash_part = a.hash_part + b'\x00' * (1 + op['v'])
            elif how == 'account-shorter':
                a.hash_part = a.hash_part[:31 - op['v']]
            elif how == 'account-empty':
                a.hash_part = b''
            elif how == 'account-bytearray':
                a.hash_part = bytearray(a.hash_part)
                a.hash_part[op['v']] ^= 0xFF
            elif how == 'wc':
                a.wc = ODD_WCS[op['v'] % len(ODD_WCS)] if op['v'] & 1 else (a.wc + 1 + op['v']) % 128
            elif how == 'flags':
                a.is_bounceable, a.is_test_only = not a.is_bounceable, SLOPPY[op['v'] % len(SLOPPY)]
            elif how == 'anycast':
                a.set_anycast(1 + op['v'], op['v'] & 1)
            _use(a, op['use'], op['v'], Address, other)
    elif k == 'printed':
        describe(ctx['pb'], ctx['pp'], other)
    else:
        raise AssertionError(k)


def _still_round_trips(ctx):
    """(clause, detail) when the valid address of the case does not round-trip (all 8 variants + raw form), else None"""
    Address, wc, acc, texts, rawt = ctx['Address'], ctx['wc'], ctx['acc'], ctx['texts'], ctx['rawt']
    ok, base = call(Address, (wc, acc))
    if not ok:
        return 'construct/raises', repr(base)
    ok, txt = call(base.to_str, False)
    if not ok or txt != rawt:
        return 'to_str/raw-differs', f'{txt!r} != {rawt}'
    ok, q = call(Address, rawt)
    if not ok:
        return 'parse/raw-rejected', f'{rawt}: {q!r}'
    if not (q.wc == wc and q.hash_part == acc and q == base and base == q and hash(q) == hash(base)):
        return 'parse/raw-not-equal', f'{rawt} -> wc={q.wc} hash={q.hash_part!r}'
    for v in range(8):
        b, t, u = bool(v & 1), bool(v & 2), bool(v & 4)
        for who, obj in (('a new object', base), ('an object built before', ctx['pb']), ('an object parsed before', ctx['pp']),
                         ('the object just parsed from raw form', q)):
            ok, txt = call(obj.to_str, True, u, b, t)
            if not ok or txt != texts[v]:
                return 'to_str/friendly-differs-from-TEP2', f'{who}: {txt!r} != {texts[v]}'
        ok, p = call(Address, texts[v])
        if not ok:
            return 'parse/friendly-rejected', f'{texts[v]}: {p!r}'
        if not (p.wc == wc and p.hash_part == acc and p == base and base == p and p == ctx['pp']):
            return 'parse/friendly-not-equal', f'{texts[v]} -> wc={p.wc} hash={p.hash_part!r}'
        if bool(p.is_bounceable) != b or bool(p.is_test_only) != t:
            return 'parse/flags-lost', f'{texts[v]}: bounceable={p.is_bounceable!r} test_only={p.is_test_only!r}'
        if len({hash(p), hash(base), hash(ctx['pb']), hash(ctx['pp'])}) != 1 or len({p, base, ctx['pb'], ctx['pp'], q}) != 1:
            return 'hash/equal-addresses-hash-differently', f'{texts[v]}'
    return None


def check_history(case):
    from pytoniq_core.boc.address import Address
    wc, acc = case['wc'], bytes.fromhex(case['acc'])
    texts = [refaddr.friendly(wc, acc, bool(v & 1), bool(v & 2), bool(v & 4)) for v in range(8)]
    v0 = int(case['bounce']) | int(case['test']) << 1 | int(case['url']) << 2
    ctx = {'Address': Address, 'wc': wc, 'acc': acc, 'texts': texts, 'rawt': refaddr.raw(wc, acc)}
    ok, ctx['pb'] = call(Address, (wc, acc))
    ok2, ctx['pp'] = call(Address, texts[v0])
    if not ok or not ok2:
        return Fail('parse/friendly-rejected' if ok else 'construct/raises', f'before any step of the history: {ctx["pp"]!r} {ctx["pb"]!r}')
    bad = _still_round_trips(ctx)
    if bad:      # nothing of this case has run yet: an earlier case's history is still in the process, or it never held
        return Fail(f'before-history/{bad[0]}', f'before the first step of this history: {bad[1]}')
    for i, op in enumerate(case['history']):
        _run_step(op, ctx)
        bad = _still_round_trips(ctx)
        if bad:
            return Fail(f'after-{_step_kind(op)}/{bad[0]}', f'{wc}:{acc.hex()} after step {i} {op}: {bad[1]}')
    res = check_roundtrip(case)
    if res is not None:
        kinds = sorted({_step_kind(op) for op in case['history']})
        return Fail(f'after-history/{res.signature}', f'history kinds {kinds}: {res.detail}')
    return None


_acc = st.one_of(st.binary(min_size=32, max_size=32),
                 st.sampled_from([b'\x00' * 32, b'\xff' * 32, b'\x00' * 31 + b'\x01', b'\x80' + b'\x00' * 31]))


HEXCH = '0123456789abcdefABCDEF'


def allhex_addresses(n):
    """designed coincidence of the two text forms: addresses whose 48 friendly characters are all hexadecimal digits (tag + workchain
    give 'E'/'0' + 'a'..'f': bounceable or test-only non-bounceable, workchain -96..-1; account characters picked from the hex
    digits, retried until the three checksum characters are hex digits too). Deterministic."""
    import base64
    out, k = [], 0
    while len(out) < n:
        h = hashlib.sha512(b'allhex%d' % k).digest()
        k += 1
        bounce = bool(h[0] & 1)
        head = ('E' if bounce else '0') + 'abcdef'[h[1] % 6] + ''.join(HEXCH[x % 22] for x in h[2:46])
        body = base64.b64decode(head + 'AA')[:34]
        wc = int.from_bytes(body[1:2], 'big', signed=True)
        text = refaddr.friendly(wc, body[2:], bounce, not bounce, True)
        if all(c in HEXCH for c in text):
            out.append({'wc': wc, 'acc': body[2:].hex(), 'bounce': bounce, 'test': not bounce, 'url': bool(len(out) & 1)})
    return out


def enum_roundtrip(tier):
    for wc in range(-128, 128):
        for v in range(8):
            acc = hashlib.sha256(b'acc%d/%d' % (wc, v)).digest()
            yield {'wc': wc, 'acc': acc.hex(), 'bounce': bool(v & 1), 'test': bool(v & 2), 'url': bool(v & 4)}
    yield from allhex_addresses(24 if tier == 'quick' else 400)


def strat_roundtrip(tier):
    return st.fixed_dictionaries({'wc': st.integers(-128, 127), 'acc': _acc.map(bytes.hex), 'bounce': st.booleans(),
                                  'test': st.booleans(), 'url': st.booleans()})


def enum_subst(tier):
    n_addr = 6 if tier == 'quick' else 400
    bases = []
    for k in range(n_addr):
        h = hashlib.sha256(b'subst%d' % k).digest()
        bases.append({'wc': h[0] - 128, 'acc': hashlib.sha256(h).hexdigest(), 'bounce': bool(k & 1), 'test': bool(k & 2),
                      'url': bool(k & 4)})
    bases[1:1] = allhex_addresses(2 if tier == 'quick' else 40)     # texts that are also well-formed hexadecimal numbers
    for base in bases:
        text = refaddr.friendly(base['wc'], bytes.fromhex(base['acc']), base['bounce'], base['test'], base['url'])
        alpha = URL if base['url'] else STD
        for pos in range(48):
            for r in range(64):
                if alpha[r] == text[pos]:
                    continue
                yield dict(base, pos=pos, repl=r)


def strat_subst(tier):
    return st.fixed_dictionaries({'wc': st.integers(-128, 127), 'acc': _acc.map(bytes.hex), 'bounce': st.booleans(),
                                  'test': st.booleans(), 'url': st.booleans(), 'pos': st.integers(0, 47),
                                  'repl': st.integers(0, 63)})


def _base(k, salt=b'b'):
    """k-th deterministic valid address + variant: workchains cycle through the boundaries first"""
    h = hashlib.sha256(salt + b'%d' % k).digest()
    wc = (0, -1, 127, -128, 1, -2)[k % 8] if k % 8 < 6 else h[0] - 128
    return {'wc': wc, 'acc': hashlib.sha256(h).hexdigest(), 'bounce': bool(k & 1), 'test': bool(k & 2), 'url': bool(k & 4)}


def enum_origins(tier):
    k = 0
    for d in range(1, 31):
        for pfx in sorted({0, 1, (1 << d) - 1, (1 << d) >> 1, 0x2AAAAAAA & ((1 << d) - 1)}):
            k += 1
            yield dict(_base(k, b'o'), depth=d, pfx=pfx)
    for i, a in enumerate(allhex_addresses(4)):
        yield dict(a, depth=1 + i, pfx=1)


def strat_origins(tier):
    return st.integers(1, 30).flatmap(lambda d: st.fixed_dictionaries({
        'wc': st.integers(-128, 127), 'acc': _acc.map(bytes.hex), 'bounce': st.booleans(), 'test': st.booleans(),
        'url': st.booleans(), 'depth': st.just(d), 'pfx': st.integers(0, (1 << d) - 1)}))


ODD_LENS = [n for n in range(0, 41) if n != 32] + [48, 64]


def enum_history(tier):
    """every single-step history of the grid, then designed two-step ones (grow, then shrink back)"""
    k = 0

    def case(*ops):
        nonlocal k
        k += 1
        return dict(_base(k, b'h'), history=list(ops))
    for ln in ODD_LENS:
        for via in ('tuple', 'raw', 'edit'):
            for use in (['friendly'], ['repr'], ['reparse', 'hash'], ['copy', 'cell', 'raw']):
                yield case({'op': 'odd-account', 'len': ln, 'fill': ln * 7 % 256, 'wc': (0, -1, 5)[k % 3], 'via': via, 'use': use, 'v': k % 8})
    for i in range(len(ODD_WCS)):
        for via in ('tuple', 'raw'):
            for use in (['friendly'], ['repr', 'hash'], ['raw', 'reparse', 'cell']):
                yield case({'op': 'odd-wc', 'i': i, 'via': via, 'use': use, 'v': k % 8})
    for kind in BAD_KINDS:
        for n in range(8):
            yield case({'op': 'bad-text', 'kind': kind, 'n': n * 37 + (n << 5) % 256, 's': ('', 'A', '====', 'AAAA', ':', 'ff', '0' * 64, 'EQ')[n],
                        'of': ('same', 'other')[n & 1], 'wc': n - 4, 'use': ['friendly', 'repr'], 'v': n})
    for i in range(len(SLOPPY)):
        for pos in range(4):
            yield case({'op': 'sloppy-flags', 'of': ('same', 'other')[(i + pos) & 1], 'pos': pos, 'i': i})
    for how in EDITS:
        for of in ('same', 'same-raw', 'other'):
            for use in (['friendly'], ['repr', 'hash', 'eq'], ['reparse', 'copy', 'tl']):
                yield case({'op': 'edit-result', 'how': how, 'of': of, 'wc': 3, 'use': use, 'v': k % 8})
    for of in ('same', 'parsed', 'other'):
        for d, pfx in ((1, 1), (5, 0), (30, 0x3FFFFFFF), (0, 0), (31, 1), (3, 9)):
            yield case({'op': 'anycast', 'of': of, 'depth': d, 'pfx': pfx, 'use': ['repr', 'hash', 'cell'], 'v': k % 8})
    yield case({'op': 'printed'})
    yield case()
    for l1, l2 in ((33, 31), (31, 33), (64, 0), (0, 64), (33, 33), (34, 30)):
        for use in (['friendly'], ['repr']):
            yield case({'op': 'odd-account', 'len': l1, 'fill': 1, 'wc': 0, 'via': 'tuple', 'use': use, 'v': 0},
                       {'op': 'odd-account', 'len': l2, 'fill': 2, 'wc': 0, 'via': 'raw', 'use': use, 'v': 5})


def strat_history(tier):
    uses = st.lists(st.sampled_from(USES), min_size=1, max_size=3)
    v = st.integers(0, 7)
    wc = st.integers(-128, 127)
    via3 = st.sampled_from(['tuple', 'raw', 'edit'])
    ln = st.one_of(st.sampled_from([31, 33, 0, 1, 34, 36, 64]), st.integers(0, 70)).filter(lambda n: n != 32)
    text = st.one_of(st.text(alphabet=STD + '-_=: ', max_size=60), st.sampled_from(['', '=', 'AAAA', ':', '0:', '-1:', 'ff' * 32]))
    ops = st.one_of(
        st.fixed_dictionaries({'op': st.just('odd-account'), 'len': ln, 'fill': st.integers(0, 255), 'wc': wc, 'via': via3, 'use': uses, 'v': v}),
        st.fixed_dictionaries({'op': st.just('odd-account'), 'len': ln, 'fill': st.integers(0, 255), 'wc': wc, 'via': via3, 'use': uses, 'v': v}),
        st.fixed_dictionaries({'op': st.just('odd-wc'), 'i': st.integers(0, len(ODD_WCS) - 1), 'via': st.sampled_from(['tuple', 'raw']),
                               'use': uses, 'v': v}),
        st.fixed_dictionaries({'op': st.just('bad-text'), 'kind': st.sampled_from(BAD_KINDS), 'n': st.integers(0, 255), 's': text,
                               'of': st.sampled_from(['same', 'other']), 'wc': wc, 'use': uses, 'v': v}),
        st.fixed_dictionaries({'op': st.just('sloppy-flags'), 'of': st.sampled_from(['same', 'other']), 'pos': st.integers(0, 3),
                               'i': st.integers(0, len(SLOPPY) - 1)}),
        st.fixed_dictionaries({'op': st.just('anycast'), 'of': st.sampled_from(['same', 'parsed', 'other']), 'depth': st.integers(0, 31),
                               'pfx': st.integers(0, 2 ** 30), 'use': uses, 'v': v}),
        st.fixed_dictionaries({'op': st.just('edit-result'), 'how': st.sampled_from(EDITS), 'of': st.sampled_from(['same', 'same-raw', 'other']),
                               'wc': wc, 'use': uses, 'v': v}),
        st.just({'op': 'printed'}))
    return st.fixed_dictionaries({'wc': wc, 'acc': _acc.map(bytes.hex), 'bounce': st.booleans(), 'test': st.booleans(),
                                  'url': st.booleans(), 'history': st.lists(ops, min_size=1, max_size=4)})


def classify(case):
    yield ('neg-wc' if case['wc'] < 0 else 'wc>=0')
    yield f"variant={int(case['bounce'])}{int(case['test'])}{int(case['url'])}"
    if 'pos' in case:
        yield 'pos=' + ('tag' if case['pos'] < 2 else 'crc' if case['pos'] >= 45 else 'body')
    if 'depth' in case:
        yield 'anycast-depth=' + ('1' if case['depth'] == 1 else '30' if case['depth'] == 30 else '2..29')
    if 'history' in case:
        yield f"history-len={len(case['history'])}"
        for op in case['history']:
            yield 'step=' + _step_kind(op)
    if 'pos' not in case and all(c in HEXCH for c in refaddr.friendly(case['wc'], bytes.fromhex(case['acc']), case['bounce'],
                                                                      case['test'], True)):
        yield 'friendly-text-all-hex-digits'


def nt(case):
    return ('pos' in case or 'depth' in case or bool(case.get('history')) or case['wc'] < 0 or not case['bounce'] or case['test']
            or not case['url'])


SUBCHECKS = [
    Sub('roundtrip-all-wc-x-variants', check_roundtrip, enum=enum_roundtrip, classify=classify, nontrivial=nt, shards=(4, 4),
        exhaustive=True, note='all 256 workchains x 8 friendly variants, one account id each; plus designed addresses whose friendly '
                              'text is all hex digits (24 quick / 400 thorough)'),
    Sub('roundtrip-random', check_roundtrip, strategy=strat_roundtrip, classify=classify, nontrivial=nt,
        n=(2000, 200000), shards=(8, 32)),
    Sub('substitution-all-48x63', check_subst, enum=enum_subst, classify=classify, nontrivial=nt, shards=(16, 32),
        note='every single-character replacement of each enumerated address (6+2 quick / 400+40 thorough addresses; the +n are '
             'all-hex-digit texts)'),
    Sub('substitution-random', check_subst, strategy=strat_subst, classify=classify, nontrivial=nt,
        n=(3000, 100000), shards=(8, 32)),
    Sub('origins-grid', check_origins, enum=enum_origins, classify=classify, nontrivial=nt, shards=(4, 8),
        note='the same address through every origin; anycast depth 1..30 x boundary prefixes'),
    Sub('origins-random', check_origins, strategy=strat_origins, classify=classify, nontrivial=nt, n=(150, 20000), shards=(4, 16)),
    Sub('history-grid', check_history, enum=enum_history, classify=classify, nontrivial=nt, shards=(8, 16),
        note='every single-step history (odd account lengths 0..40,48,64 x origin x use; odd workchains; rejected texts; sloppy flags; '
             'edited parse results; anycast) and grow-then-shrink pairs; round trip of the valid address re-checked after every step'),
    Sub('history-random', check_history, strategy=strat_history, classify=classify, nontrivial=nt, n=(250, 40000), shards=(8, 32)),
]

# the same generated cases, several at a time, checked by threads that run at the same time (core.run_overlapping): per-call state
# kept in a place two calls share shows only there
SUBCHECKS.append(__import__('harness.core', fromlist=['overlapped']).overlapped(next(s for s in SUBCHECKS if s.name == 'roundtrip-random'), k=4, n=(80, 4000)))
