"""C16 (block half) - block header & co, value flows, shard descriptors, validator sets, catchain config, masterchain /
block / state extras are parsed exactly as block.tlb lays them out.

Cases are plain data in the value language of harness/ref/reftlb.py:
    {'type': <name in TYPES>, 'v': <value of the TL-B type>, 'tail': {'bits': '0101..', 'nrefs': k}}
    {'component': <name>}                                      (sub-check real-block: the case is fixed)

Oracle (value cases)
  0. cell = reftlb.to_cell(T, v) followed, IN THE SAME CELL, by the sentinel tail: the tail bits and k references to small
     distinct cells (both cut down to the room the value leaves). The schema tables are harness/ref/tlb_block.py.
  1. C.deserialize(cell.begin_parse()) must return (C = the library class of T; ShardHashes = tlb.utils.deserialize_shard_hashes,
     BlkPrevInfo = BlkPrevInfo.deserialize(slice, after_merge)).            <Type>/<ctor>/raises/<exception@frame>
  2. every schema field of v must be readable from the returned object with the encoded value. The object is converted to a
     plain value by reading ATTRIBUTES: attribute name = schema field name, except where the class's own __init__ declares
     another name (ALIAS: BlockInfo.seqno / vert_seqno, ExtBlkRef.seqno); classes taking **kwargs are read under the names of
     the schema quoted in their docstring. Integers must be the same Python int (True/False for a one-bit field and 0/1 for
     a Bool are accepted), bits256 fields must be the same bytes.      <innermost Type>/<field path>/<kind>
         kind = unsigned-read-signed (an unsigned field came back as value - 2^width), missing (no such attribute), differs
     <Type> is the innermost covered type that is wrong on its own (see "Naming the root cause" (b)), so that one parser
     defect has one signature wherever the type is nested (ExtBlkRef/end_lt/... whether found through BlockInfo, BlkPrevInfo
     or McStateExtra); the path is the field path below that type (dictionary keys and BinTree positions left out).
  3. the slice handed to deserialize must afterwards hold exactly the tail.
         <Type>/consumed-too-little/<ctor>   bits or references of the value are left in front of the tail
         <Type>/consumed-too-much/<ctor>     part of the tail was eaten
  4. two-threads-blk-parsers: for every row of the constructor grid 3 hash-chosen values of that row are encoded (+ tail) into
     cells one after the other; 4 threads then parse these cells in tight loops at the same time (core.hammer, switch interval
     1 us). Every parse must yield the fields and the remaining slice the same parse yields alone.   two-threads/<Type>/<ctor>
  Naming the root cause. (a) The slice handed to the parser records its position after every outermost load_* call. When a
  case FAILS one of 1-3 and the parser at some point stood at a position that is not a field boundary of the encoded
  value, the case is reported once, as  <Type>/<ctor>/diverges-after/<last boundary it was at>  (a parser that lost the
  framing raises, mis-reads later fields or leaves a wrong remainder depending on the bits it hits: one defect, one
  signature). The trace never decides WHETHER a case fails. (b) When the value fails and a component of it (a sub-value
  of a covered type) fails stand-alone through that type's own class, the component's failure is reported instead.
  real-block: the main-net block bundled in tests/test_cell.py is decoded by refboc + reftlb with the same tables (as far as
  they reach: opaque cells for the types of the other half; pruned branches of the state update stop the descent) and
  compared component by component with what Block.deserialize returns (signatures as in clause 2, named after the innermost
  covered type holding the field; real-block/raises/.. when Block.deserialize itself raises).

Not asserted (deliberately)
  * `type_` label strings and any attribute that is not a schema field; object identity; repr.
  * Helper wrappers that hand out raw data are compared on content only: dictionaries may come back as dict or None (empty);
    dictionary keys are compared modulo 2^n (ConfigParams hands out signed int32 keys); a value handed out as an unparsed
    Slice / Cell (prev_blk_signatures, libraries, config values, out_msg_queue_info, recover_create_msg, mint_msg) must hold
    exactly the encoded bits and references of the value; BinTree is handed out as the list of its leaves (order compared,
    shape not); HashmapAugE comes back as (dict, list of extras in post-order): values, leaf extras and fork extras are
    compared, the ROOT extra (which repeats the extra of the root node) is not; McBlockExtra.shard_fees is declared as the
    raw root cell: compared with the root cell of the encoded dictionary (its extras are not reachable and not compared).
  * A field whose value the schema fixes ({ flags = 0 } of catchain_config_new#c2 / ShardDescr) need not be an attribute
    (CatchainConfig drops it); when it is exposed it must hold the value.
  * FutureSplitMerge fsm_none$0 is returned as None and account_none$0 as None: accepted.
  * What happens below a reference is invisible to clause 3 (the library drops sub-slices): only the top-level slice is
    checked for exact consumption. Behaviour on invalid encodings. InMsg / OutMsg / AccountBlock / Account contents
    (other half; only empty dictionaries of them are generated here, account_none$0 for ShardAccount.account).

env VERIF_IGNORE_SIG='sig1,sig2' (development aid): failures with these signatures are dropped, the remaining clauses of
the same case are still evaluated. Signatures in known_findings.json are reported only when a case has no other failure.
"""
import base64
import os
import re

from hypothesis import strategies as st
from harness.core import Sub, Fail, call, exc_sig, load_known
from harness.ref import reftlb as R
from harness.ref import tlb_block as B

ASSUMPTIONS = ['harness/ref/reftlb.py + tlb_block.py + tlb_msg.py: independent TL-B interpreter and schema tables, self-checked '
               'at import on hand-assembled encodings (BlockInfo with every flag-dependent field, ValueFlow v1/v2, ShardDescr '
               'old/new, ShardHashes, validators#11 with its inline dictionary root, validators_ext#12, CatchainConfig, '
               'ConfigParams, McStateExtra, McBlockExtra, BlockExtra incl. its implicit CRC-32 tag, ShardStateUnsplit, Block)',
               'harness/ref/refdict.py canonical Hashmap builder (validated by C09/C10), refcell.RCell, refboc.decode_strict',
               'Builder.store_bits/store_ref/end_cell, Cell.begin_parse (used by lib_from_rcell to hand cells to the parsers)']
RULE = ('blk: case = a reftlb-generated value of one of the covered block-level types (integers from {0, 1, max, max-1, '
        '2^(w-1), 2^(w-1)+-1} 40%, top-bit-set 20%, uniform 40%) + a sentinel tail of 0..64 random bits and 0..2 references. '
        'blk-ctor-grid enumerates every constructor alternative x flag / optional-field combination (BlockInfo: all 16 '
        'combinations of not_master, after_merge, vert_seqno_incr, flags.0; ValueFlow v1/v2; ShardDescr old/new x fsm_none/'
        'split/merge; ValidatorSet #11/#12 x validator#53/#73 x 0/1/2/3/6 entries; CatchainConfig #c1/#c2; McStateExtra flags x '
        'last_key_block x both BlockCreateStats; McBlockExtra key_block x Maybe x Maybe; ...) with hash-chosen and min/max '
        'values; blk-random draws type and value with Hypothesis. two-threads-blk-parsers: per grid row 3 hash-chosen values, prepared '
        'as cells, parsed by 4 threads in tight loops at the same time, each parse compared with the same parse made alone. non-trivial = a non-first constructor, an optional / '
        'conditional field present, or an unsigned integer with its top bit set; distinct = distinct case. '
        'blk-real-block: one fixed case per compared component of the bundled main-net block')

MISSING = '<missing attribute>'
BLOCK_HASH = 'b0c09b7c116f951092b3d1b258fb98adc01c698a227b3b2e268469c24173eeb2'

# attribute names that the class's own __init__ declares instead of the schema field name
ALIAS = {('block_info', 'seq_no'): 'seqno', ('block_info', 'vert_seq_no'): 'vert_seqno', ('ext_blk_ref', 'seq_no'): 'seqno'}


def _lib(name):
    """the library entry point for a top-level type: a callable taking the slice"""
    import importlib
    blk = importlib.import_module('pytoniq_core.tlb.block')
    cfg = importlib.import_module('pytoniq_core.tlb.config')
    utl = importlib.import_module('pytoniq_core.tlb.utils')
    if name == 'BlkPrevInfo0':
        return lambda s: blk.BlkPrevInfo.deserialize(s, 0)
    if name == 'BlkPrevInfo1':
        return lambda s: blk.BlkPrevInfo.deserialize(s, 1)
    if name == 'ShardHashes':
        return utl.deserialize_shard_hashes
    if name in ('SigPubKey', 'ValidatorDescr', 'ValidatorSet', 'CatchainConfig'):
        return getattr(cfg, name).deserialize
    return getattr(blk, name).deserialize


# name -> (canonical TL-B type, type used for generation [same encoding; old-format ShardDescr amounts kept small so that
# values fit a cell], TL-B type name for signatures)
TYPES = {
    'ShardIdent': (B.ShardIdent, B.ShardIdent),
    'ExtBlkRef': (B.ExtBlkRef, B.ExtBlkRef),
    'BlkMasterInfo': (B.BlkMasterInfo, B.BlkMasterInfo),
    'BlkPrevInfo0': (B.BlkPrevInfo(0), B.BlkPrevInfo(0)),
    'BlkPrevInfo1': (B.BlkPrevInfo(1), B.BlkPrevInfo(1)),
    'GlobalVersion': (B.GlobalVersion, B.GlobalVersion),
    'BlockInfo': (B.BlockInfo, B.BlockInfo),
    'ValueFlow': (B.ValueFlow, B.ValueFlow),
    'FutureSplitMerge': (B.FutureSplitMerge, B.FutureSplitMerge),
    'ShardDescr': (B.ShardDescr, B.ShardDescrGen),
    'ShardHashes': (B.ShardHashes, B.ShardHashesGen),
    'SigPubKey': (B.SigPubKey, B.SigPubKey),
    'ValidatorDescr': (B.ValidatorDescr, B.ValidatorDescr),
    'ValidatorSet': (B.ValidatorSet, B.ValidatorSet),
    'CatchainConfig': (B.CatchainConfig, B.CatchainConfig),
    'DepthBalanceInfo': (B.DepthBalanceInfo, B.DepthBalanceInfo),
    'ConfigParams': (B.ConfigParams, B.ConfigParams),
    'McStateExtra': (B.McStateExtra, B.McStateExtraGen),
    'McBlockExtra': (B.McBlockExtra, B.McBlockExtraGen),
    'BlockExtra': (B.BlockExtra, B.BlockExtraGen),
    'ShardStateUnsplit': (B.ShardStateUnsplit, B.ShardStateUnsplitGen),
    'Block': (B.Block, B.BlockGen),
}
# weights of the types in the random sub-check (the types the statement names get most of the budget)
WEIGHTS = {'BlockInfo': 8, 'ValueFlow': 5, 'ShardDescr': 6, 'ValidatorSet': 8, 'CatchainConfig': 3, 'ValidatorDescr': 3,
           'ExtBlkRef': 2, 'GlobalVersion': 2, 'ShardHashes': 3, 'McStateExtra': 4, 'McBlockExtra': 4, 'BlockExtra': 2,
           'ShardStateUnsplit': 3, 'Block': 2}


def type_name(name):
    return 'BlkPrevInfo' if name.startswith('BlkPrevInfo') else name


# --------------------------------------------------------------------------------------------------
# library objects -> plain values (driven by the schema table and the expected value)

def _resolve(t, ctx):
    n = 0
    while not isinstance(t, R.T):
        t = t(ctx)
        n += 1
        if n > 8:
            raise TypeError('not a TL-B type')
    return t


def _is_slice(o):
    return hasattr(o, 'ref_offset') and hasattr(o, 'bits') and hasattr(o, 'refs')


def _is_cell(o):
    return hasattr(o, 'bits') and hasattr(o, 'refs') and hasattr(o, 'begin_parse')


def _rest_of(o):
    """(bits, [RCell]) still unread in a library Slice / held by a library Cell"""
    if _is_slice(o):
        return o.bits.to01(), [R.rcell_of(c) for c in o.refs[o.ref_offset:]], getattr(o, 'type_', -1) != -1
    return o.bits.to01(), [R.rcell_of(c) for c in o.refs], getattr(o, 'type_', -1) != -1


def v_cellish(o):
    if o is None or o is MISSING:
        return o
    if not (_is_slice(o) or _is_cell(o)):
        return f'<{type(o).__name__}>'
    bits, refs, special = _rest_of(o)
    return {'bits': bits, 'refs': [R.cell_to_plain(c) for c in refs], 'special': special}


def _unexpected(o):
    return f'<unexpected {type(o).__name__}>'


def _raw_equals(t, exp, o, ctx):
    """a value handed out unparsed (Slice / Cell): it must hold exactly the encoding of the expected value"""
    try:
        b = R.encode(t, exp, R.Bld(), ctx)
    except R.ModelError:
        return '<expected value not encodable>'
    bits, refs, _ = _rest_of(o)
    if bits == b.bits() and [c.repr_hash() for c in refs] == [c.repr_hash() for c in b.refs]:
        return exp
    return {'<raw>': {'bits': bits, 'nrefs': len(refs)}}


def _postorder(keys, n):
    """nodes of the Patricia tree over the n-bit keys in post-order: ('leaf', key) / ('fork', [keys below])"""
    ks = sorted(format(k, f'0{n}b') for k in keys)

    def rec(group, depth):
        if len(group) == 1:
            return [('leaf', int(group[0], 2))]
        p = depth
        while len({k[p] for k in group}) == 1:
            p += 1
        left = [k for k in group if k[p] == '0']
        right = [k for k in group if k[p] == '1']
        return rec(left, p + 1) + rec(right, p + 1) + [('fork', [int(k, 2) for k in group])]
    return rec(ks, 0) if ks else []


def conv(t, exp, o, ctx):
    """plain value (in the shape of `exp`) read from the library object `o`, guided by the schema type t"""
    t = _resolve(t, ctx)
    if o is MISSING:
        # a field whose value the schema fixes ({ flags = 0 }) carries no information: a class need not expose it
        return t.value if isinstance(t, R.Const) else MISSING
    if isinstance(exp, dict) and set(exp) == {'exotic'}:
        return exp                                           # pruned in the real block: the descent stops here
    if isinstance(t, R.Cond):
        if not t.pred(ctx):
            return None if o is None else _unexpected(o)
        return conv(t.t, exp, o, ctx)
    if isinstance(t, R.Maybe):
        if o is None:
            return None
        if exp is None:
            return _unexpected(o)
        return conv(t.t, exp, o, ctx)
    if isinstance(t, B.MerkleUpdateRef):
        if o is None:
            return None
        return {'_': 'merkle_update', 'old_hash': _hex(getattr(o, 'old_hash', MISSING)),
                'new_hash': _hex(getattr(o, 'new_hash', MISSING)),
                'old': conv(t.x, exp['old'], getattr(o, 'old', MISSING), R.Ctx(ctx)),
                'new': conv(t.x, exp['new'], getattr(o, 'new', MISSING), R.Ctx(ctx))}
    if isinstance(t, R.Ref):
        return conv(t.t, exp, o, R.Ctx(ctx))
    if t is R.RefCell or t is R.AnyRest:
        if t is R.AnyRest and not (_is_slice(o) or _is_cell(o)):
            return exp                                       # a leaf of the other half, parsed by its class: not compared
        return v_cellish(o)
    if isinstance(t, (R.U, R.I, R.Range, R.Const, R.VarU)) or t is R.Bool:
        return o
    if isinstance(t, R.Bytes):
        return _hex(o)
    if isinstance(t, R.Union):
        if not isinstance(exp, dict) or exp.get('_') not in t.by_name:
            return _unexpected(o)
        alt = t.by_name[exp['_']]
        if t.name == 'FutureSplitMerge' and exp['_'] == 'fsm_none':
            return {'_': 'fsm_none'} if o is None or type(o).__name__ == 'FutureSplitMerge' else _unexpected(o)
        if t.name == 'Account' and exp['_'] == 'account_none':
            return {'_': 'account_none'} if o is None else _unexpected(o)
        if t.name == 'BinTree':
            return _conv_bintree(t, exp, o, ctx)
        if t.name == 'ShardState' and exp['_'] == 'shard_state':
            o = getattr(o, 'shard_state_unsplit', MISSING) if o is not None else None
        return conv(alt, exp, o, ctx)
    if isinstance(t, R.Record):
        if o is None:
            return None
        if _is_slice(o):
            return _raw_equals(t, exp, o, ctx)
        if not isinstance(exp, dict):
            return _unexpected(o)
        out = {'_': t.name} if t.name else {}
        c = R.Ctx(ctx)
        _conv_fields(t, exp, o, c, out)
        return out
    if isinstance(t, R._Dict):
        return _conv_dict(t, exp, o, ctx)
    raise TypeError(f'no conversion for {t!r}')


def _conv_fields(t, exp, o, c, out):
    for fn, ft in t.fields:
        if fn is None:
            inner = ft
            while isinstance(inner, R.Ref):
                inner = inner.t
            _conv_fields(inner, exp, o, c, out)
            continue
        if t.name == 'masterchain_block_extra' and fn == 'shard_fees':
            out[fn] = _conv_shard_fees(ft, exp[fn], getattr(o, fn, MISSING), c)
        elif t.name == 'shard_state' and fn == 'group':      # real block only: the ^[ ... ] group kept apart (it may be pruned)
            e = exp.get(fn)
            if isinstance(e, dict) and set(e) == {'exotic'}:
                out[fn] = e
            else:
                out[fn] = {}
                _conv_fields(ft.t, e, o, R.Ctx(c), out[fn])
        else:
            out[fn] = conv(ft, exp.get(fn), getattr(o, ALIAS.get((t.name, fn), fn), MISSING), c)
        c[fn] = exp.get(fn)


def _hex(b):
    if isinstance(b, (bytes, bytearray)):
        return bytes(b).hex()
    if isinstance(b, str):
        return b                                             # ConfigParams.config_addr is declared (and returned) as hex
    return b if b is MISSING or b is None else f'<{type(b).__name__}>'


def _conv_bintree(t, exp, o, ctx):
    leaves = getattr(o, 'list', MISSING)
    if not isinstance(leaves, list):
        return MISSING if leaves is MISSING else _unexpected(leaves)
    leaf_t = dict(t.by_name['bt_leaf'].fields)['leaf']
    it = iter(leaves)
    count = [0]

    def walk(e):
        if set(e) == {'exotic'}:                             # a pruned sub-tree (real block): one list element, not compared
            count[0] += 1
            next(it, None)
            return e
        if e['_'] == 'bt_leaf':
            count[0] += 1
            return {'_': 'bt_leaf', 'leaf': conv(leaf_t, e['leaf'], next(it, MISSING), R.Ctx(ctx))}
        return {'_': 'bt_fork', 'left': walk(e['left']), 'right': walk(e['right'])}
    out = walk(exp)
    if len(leaves) != count[0]:
        return f'<{len(leaves)} leaves>'
    return out


def _conv_shard_fees(t, exp, o, ctx):
    """declared `shard_fees: Cell`: the raw dictionary root (None when empty)"""
    if o is MISSING:
        return MISSING
    if isinstance(o, tuple):
        return _conv_dict(t, exp, o, ctx)                    # handed out parsed, like the other HashmapAugE fields
    b = R.encode(t, exp, R.Bld(), ctx)
    root = b.refs[0] if exp['items'] else None
    if root is None:
        return exp if o is None else _unexpected(o)
    if not _is_cell(o):
        return None if o is None else _unexpected(o)
    return exp if R.rcell_of(o).repr_hash() == root.repr_hash() else {'<raw root cell>': o.hash.hex() if hasattr(o, 'hash') else '?'}


def _conv_dict(t, exp, o, ctx):
    mod = 1 << t.n
    if t.y is None:
        if o is None:
            return []                                        # an empty dictionary handed back as None: accepted
        if not isinstance(o, dict):
            return _unexpected(o)
        want = {k: x for k, x in exp} if isinstance(exp, list) else {}
        out = []
        for k in sorted(o, key=lambda k: k % mod if isinstance(k, int) else -1):
            kk = k % mod if isinstance(k, int) and not isinstance(k, bool) else k
            out.append([kk, conv(t.x, want[kk], o[k], R.Ctx(ctx)) if kk in want else '<unexpected key>'])
        return out
    # augmented: (dict, extras in post-order); the root extra is not compared
    inline = t.root != 'E'
    items_exp = exp if inline else exp['items']
    wrap = (lambda items: items) if inline else (lambda items: {'extra': exp['extra'], 'items': items})
    if not (isinstance(o, tuple) and len(o) == 2 and isinstance(o[0], dict) and isinstance(o[1], list)):
        return _unexpected(o)
    d, extras = o
    want = {k: x for k, x in items_exp}
    order = _postorder(list(want), t.n)
    got_extra = {}
    problems = None
    if t.pruned_ok:
        got_extra = {k: x['extra'] for k, x in want.items()}   # partly pruned dictionary (real block): extras not compared
    elif want:
        if len(extras) == len(order) + 1 and not inline and R.diff(exp['extra'], conv(t.y, exp['extra'], extras[-1], R.Ctx(ctx))) is None:
            extras = extras[:-1]                             # the root extra appended after the nodes' extras: fine
        if len(extras) != len(order):
            problems = f'<{len(extras)} extras for {len(order)} nodes>'
        else:
            for (kind, key), e in zip(order, extras):
                if kind == 'leaf':
                    got_extra[key] = conv(t.y, want[key]['extra'], e, R.Ctx(ctx))
                else:
                    fe = t.fork_extra([want[k]['extra'] for k in sorted(key)])
                    ge = conv(t.y, fe, e, R.Ctx(ctx))
                    if R.diff(fe, ge) is not None and problems is None:
                        problems = {'<fork extra>': ge}
    out = []
    for k in sorted(d, key=lambda k: k % mod if isinstance(k, int) else -1):
        kk = k % mod if isinstance(k, int) and not isinstance(k, bool) else k
        if kk in want:
            out.append([kk, {'extra': got_extra.get(kk, want[kk]['extra'] if problems else MISSING),
                             'value': conv(t.x, want[kk]['value'], d[k], R.Ctx(ctx))}])
        else:
            out.append([kk, '<unexpected key>'])
    res = wrap(out)
    if problems is not None:
        return {'<extras>': problems, 'items': out}
    return res


# --------------------------------------------------------------------------------------------------
# comparison, signatures

def diff_all(a, b, path=()):
    """all differences between the expected value a and the value b read from the library: [(path tuple, a_sub, b_sub)]"""
    if isinstance(a, dict) and isinstance(b, dict):
        if set(a) >= {'bits', 'refs'} and set(b) >= {'bits', 'refs'}:
            return [] if R.diff(a, b) is None else [(path, a, b)]
        out = []
        for k in a:
            if k not in b:
                out.append((path + (k,), a[k], MISSING))
            else:
                out.extend(diff_all(a[k], b[k], path + (k,)))
        if any(k not in a for k in b):
            out.append((path, a, b))
        return out
    if isinstance(a, list) and isinstance(b, list):
        if len(a) != len(b) or any(isinstance(x, list) and isinstance(y, list) and x[:1] != y[:1] for x, y in zip(a, b)):
            return [(path, a, b)]
        out = []
        for i, (x, y) in enumerate(zip(a, b)):
            out.extend(diff_all(x, y, path + (i,)))
        return out
    return [] if R.diff(a, b) is None else [(path, a, b)]


def _kind(e, g):
    if g is MISSING or g == MISSING:
        return 'missing'
    if isinstance(e, int) and isinstance(g, int) and not isinstance(e, bool) and not isinstance(g, bool) and e >= 0 > g:
        d = e - g
        if d & (d - 1) == 0:
            return 'unsigned-read-signed'
    return 'differs'


def _covered(ctor):
    """TL-B type name of a constructor when that type is one of the covered top-level types (else None)"""
    tn = B.CTORS.get(ctor, (None,))[0]
    return tn if tn in TYPES or tn == 'BlkPrevInfo' else None


def _locate(top_name, v, path, innermost):
    """(TL-B type name, field path below it) naming a difference at `path` of the value v.
    innermost=False: the top-level type and the whole path (value cases: a component that is itself wrong has already been
    blamed by the stand-alone re-check, so what is left belongs to the top-level parser);
    innermost=True: the innermost covered type that holds the field (real block, where components cannot be re-checked
    stand-alone) - the same name the value case of that type produces"""
    tname, start = top_name, 0
    cur = v
    if innermost:
        for i, tok in enumerate(path):
            if isinstance(cur, dict) and _covered(cur.get('_')):
                tname, start = _covered(cur['_']), i
            try:
                cur = cur[tok]
            except (KeyError, IndexError, TypeError):
                break
    rel = [str(tok) for tok in path[start:] if isinstance(tok, str) and tok not in ('items', 'value', 'left', 'right', 'leaf')]
    return tname, '.'.join(rel) or 'value'


def _short(v, n=240):
    s = repr(v)
    return s if len(s) <= n else s[:n] + '…'


def field_failures(top_name, exp, got, innermost=False):
    fails = []
    for path, e, g in diff_all(exp, got):
        tname, rel = _locate(top_name, exp, path, innermost)
        fails.append(Fail(f'{tname}/{rel}/{_kind(e, g)}',
                          f'{".".join(map(str, path)) or "value"}: parsed {_short(g)} != encoded {_short(e)}'))
    return fails


def _select(fails):
    ignore = {x.strip() for x in os.environ.get('VERIF_IGNORE_SIG', '').split(',') if x.strip()}
    fails = [f for f in fails if f.signature not in ignore]
    seen, out = set(), []
    for f in fails:
        if f.signature not in seen:
            seen.add(f.signature)
            out.append(f)
    if not out:
        return None
    known = load_known('C16')
    for f in out:
        if f.signature not in known:
            return f
    return out[0]


def ctor_label(v):
    return B.CTORS.get(v.get('_'), ('?', v.get('_', '?')))[1] if isinstance(v, dict) else 'dictionary'


# --------------------------------------------------------------------------------------------------
# the value check

def tail_cells(k):
    """k small distinct cells that no generated value contains"""
    return [R.RCell('1010010110100101' + format(i, '02b') + '1') for i in range(k)]


def build(case):
    """(RCell holding value + tail, tail bits actually appended, tail refs actually appended)"""
    t = TYPES[case['type']][0]
    try:
        b = R.encode(t, case['v'], R.Bld())
    except R.ModelError as e:
        raise ValueError(f'case outside the value domain: {e}')
    room_b, room_r = b.room()
    tbits = case['tail']['bits'][:room_b]
    trefs = tail_cells(min(case['tail']['nrefs'], room_r))
    b.put(tbits)
    for c in trefs:
        b.ref(c)
    return b.cell(), tbits, trefs


def boundaries(t, v, b, ctx, path, out):
    """positions (bits, refs) of the builder state b after every schema step of the value v laid out in the CURRENT cell:
    after every bit of a constructor prefix, every field, the presence bit of a Maybe, the bit + root reference of a
    HashmapE / HashmapAugE and its root extra. out: list of ((bits, refs), label)"""
    t = _resolve(t, ctx)

    def mark(label):
        out.append(((b.nbits, len(b.refs)), label))
    if isinstance(t, R.Union):
        return boundaries(t.by_name[v['_']], v, b, ctx, path, out)
    if isinstance(t, R.Record):
        for bit in t.tag:
            b.put(bit)
            mark((path + '.' if path else '') + '#tag')
        c = R.Ctx(ctx)
        for fn, ft in t.fields:
            if fn is None:
                g = _resolve(ft, c)
                g.enc(v, b, c)
                for k, x in v.items():
                    c.setdefault(k, x)
                inner = g
                while isinstance(inner, R.Ref):
                    inner = inner.t
                mark((path + '.' if path else '') + f'^[{inner.field_names()[0]}..]')
            else:
                boundaries(ft, v[fn], b, c, (path + '.' if path else '') + fn, out)
                c[fn] = v[fn]
        return
    if isinstance(t, R.Cond):
        if t.pred(ctx):
            boundaries(t.t, v, b, ctx, path, out)
        return
    if isinstance(t, R.Maybe):
        b.put('0' if v is None else '1')
        mark(path + '?')
        if v is not None:
            boundaries(t.t, v, b, ctx, path, out)
        return
    if isinstance(t, R._Dict) and t.root == 'E' and t.y is not None:
        n0, r0 = b.nbits, len(b.refs)
        t.enc(v, b, ctx)
        out.append(((n0 + 1, r0 + (1 if v['items'] else 0)), path + '.root'))
        mark(path + '.extra')
        return
    t.enc(v, b, ctx)
    mark(path)


def traced(s, trace):
    """make the library slice s record its position (bits consumed, references consumed) after every OUTERMOST load_* /
    skip_* call (instance-level wrappers; nested calls of the slice's own methods are not recorded)"""
    total = len(s.bits)
    depth = [0]

    def wrap(orig):
        def f(*a, **k):
            depth[0] += 1
            try:
                return orig(*a, **k)
            finally:
                depth[0] -= 1
                if depth[0] == 0:
                    trace.append((total - len(s.bits), s.ref_offset))
        return f
    try:
        for name in dir(type(s)):
            if name.startswith(('load_', 'skip_')):
                setattr(s, name, wrap(getattr(s, name)))
    except (AttributeError, TypeError):
        pass                                                 # no per-instance attributes: no trace, plain signatures
    return s


def divergence(case, trace):
    """label of the last schema boundary the parser was at before it first stood at a position that is no boundary of
    the encoded value (None when every recorded position is a boundary)"""
    t = TYPES[case['type']][0]
    out = [((0, 0), 'start')]
    boundaries(t, case['v'], R.Bld(bounded=False), R.Ctx(), '', out)
    label_at = {}
    for pos, label in out:
        label_at.setdefault(pos, label)
    last = 'start'
    for pos in trace:
        if pos not in label_at:
            return last
        last = label_at[pos]
    return None


def _own_failures(case):
    from harness.gen.dag import lib_from_rcell
    name = case['type']
    t = TYPES[name][0]
    tn = type_name(name)
    v = case['v']
    cell, tbits, trefs = build(case)
    label = ctor_label(v)
    trace = []
    lc = lib_from_rcell(cell)
    # malformed inputs first (see c16_tx): nothing may be carried over into the parse of the well-formed value
    from harness.ref.refcell import RCell as _RC
    for bad in (_RC(cell.bits[:len(cell.bits) // 2], cell.refs[:1]), _RC(cell.bits[:max(0, len(cell.bits) - 1)], []),
                _RC(''.join('1' if c == '0' else '0' for c in cell.bits), cell.refs)):
        call(lambda: _lib(name)(lib_from_rcell(bad).begin_parse()))
    s = traced(lc.begin_parse(), trace)
    ok, obj = call(_lib(name), s)
    if ok:
        from harness.core import describe
        describe(obj, lc)                             # the caller logs what it got and the cell: nothing changes by that
    fails = []
    if not ok:
        fails.append(Fail(f'{tn}/{label}/raises/{exc_sig(obj)}', f'deserialize raised {obj!r}'))
    else:
        exp = R.strip_either(v)
        got = conv(t, exp, obj, R.Ctx())
        fails = field_failures(tn, exp, got)
        # exact consumption
        rb, rr, _ = _rest_of(s)
        if rb != tbits:
            if len(rb) > len(tbits):
                fails.append(Fail(f'{tn}/consumed-too-little/{label}', f'{len(rb) - len(tbits)} bits of the value are left in '
                                                                       f'the slice in front of the {len(tbits)}-bit tail'))
            elif len(rb) < len(tbits):
                fails.append(Fail(f'{tn}/consumed-too-much/{label}', f'{len(tbits) - len(rb)} bits of the tail were consumed'))
            else:
                fails.append(Fail(f'{tn}/remaining-bits-differ/{label}', f'left {rb}, tail {tbits}'))
        if len(rr) > len(trefs):
            fails.append(Fail(f'{tn}/consumed-too-little/{label}', f'{len(rr) - len(trefs)} references of the value are left'))
        elif len(rr) < len(trefs):
            fails.append(Fail(f'{tn}/consumed-too-much/{label}', f'{len(trefs) - len(rr)} references of the tail were consumed'))
        elif [c.repr_hash() for c in rr] != [c.repr_hash() for c in trefs]:
            fails.append(Fail(f'{tn}/remaining-refs-differ/{label}', 'the references left are not the tail references'))
    if not fails and ok:
        # a second parse of the SAME cell object: same result, and parsing left the cell itself untouched
        from harness.core import scramble
        scramble(obj)                       # the first result is the caller's: every flag / number / byte string in it edited
        okb, objb = call(_lib(name), lc.begin_parse())
        if not okb:
            fails.append(Fail(f'{tn}/{label}/second-parse-of-the-same-cell/raises/{exc_sig(objb)}', repr(objb)))
        else:
            gotb = conv(t, R.strip_either(v), objb, R.Ctx())
            if field_failures(tn, R.strip_either(v), gotb):
                fails.append(Fail(f'{tn}/{label}/second-parse-of-the-same-cell/differs', tn))
            elif lc.bits.to01() != cell.bits or R.rcell_of(lc).repr_hash() != cell.repr_hash():
                fails.append(Fail(f'{tn}/{label}/parsing-changed-the-cell', tn))
        if not fails:
            # the same value behind a PREFIX the caller has already consumed (3 bits and one reference)
            try:
                b2 = R.Bld()
                b2.put('101')
                b2.ref(tail_cells(1)[0])
                R.encode(t, v, b2)
                pc = lib_from_rcell(b2.cell())
            except (R.ModelError, IndexError):
                pc = None
            if pc is not None:
                ps = pc.begin_parse()
                ps.load_bits(3)
                ps.load_ref()
                okp, objp = call(_lib(name), ps)
                if not okp:
                    fails.append(Fail(f'{tn}/{label}/behind-a-consumed-prefix/raises/{exc_sig(objp)}', repr(objp)))
                elif field_failures(tn, R.strip_either(v), conv(t, R.strip_either(v), objp, R.Ctx())):
                    fails.append(Fail(f'{tn}/{label}/behind-a-consumed-prefix/differs', tn))
                elif ps.remaining_bits or ps.remaining_refs:
                    fails.append(Fail(f'{tn}/{label}/behind-a-consumed-prefix/leftover', f'{ps.remaining_bits} bits / {ps.remaining_refs} refs'))
        return fails
    if fails and any(not f.signature.endswith('/unsigned-read-signed') for f in fails):
        # name the root cause: a parser that lost the framing of the value raises, mis-reads later fields or leaves a wrong
        # remainder depending on the bits it happens to hit - all of these are ONE failure, named after the place where it
        # left the schema's field boundaries
        d = divergence(case, trace)
        if d is not None:
            return [Fail(f'{tn}/{label}/diverges-after/{d}',
                         f'after {d} the parser stands at a position that is not a field boundary of the encoded value; '
                         f'consequences: ' + '; '.join(f'{f.signature}: {f.detail[:160]}' for f in fails[:3]))]
    return fails


def _top_type_of(v):
    """the registered top-level type a record value belongs to (None when its type is only a component)"""
    tn = B.CTORS.get(v.get('_'), (None,))[0]
    if tn == 'BlkPrevInfo':
        return 'BlkPrevInfo1' if v['_'] == 'prev_blks_info' else 'BlkPrevInfo0'
    return tn if tn in TYPES else None


def components(v, root=True):
    """the outermost sub-values of v that are values of a registered top-level type: [(type name, value)]"""
    out = []
    if isinstance(v, dict):
        if set(v) >= {'bits', 'refs'} and '_' not in v:
            return out
        if not root and '_' in v:
            tn = _top_type_of(v)
            if tn is not None:
                return [(tn, v)]
        for k, x in v.items():
            if k == 'shard_hashes' and isinstance(x, list):
                out.append(('ShardHashes', x))               # a dictionary type: its value carries no constructor name
            elif k != '_':
                out.extend(components(x, False))
    elif isinstance(v, list):
        for x in v:
            out.extend(components(x, False))
    return out


def _failures(case, depth=0):
    """failures of the case, blamed on the innermost type that fails on its own: when the value fails and one of its
    components (a sub-value of a covered type, parsed by that type's own class) fails stand-alone as well, the component's
    failures are reported instead - one parser defect then has one signature wherever the type is nested"""
    own = _own_failures(case)
    if not own or depth >= 6:
        return own
    blamed, seen = [], set()
    for tn, sub in components(case['v']):
        key = (tn, R.to_cell(TYPES[tn][0], sub).repr_hash())
        if key in seen:
            continue
        seen.add(key)
        blamed.extend(_failures({'type': tn, 'v': sub, 'tail': {'bits': '1', 'nrefs': 0}}, depth + 1))
    return blamed or own


def check_value(case):
    return _select(_failures(case))


# --------------------------------------------------------------------------------------------------
# the real block

COMPONENTS = ('global_id', 'info', 'value_flow', 'state_update.hashes', 'state_update.old', 'state_update.new',
              'extra.header', 'extra.dictionaries', 'extra.custom')
_REAL_STATE = B.shard_state_unsplit(account=R.Ref(R.AnyRest), exotic_ok=True, cc=B.CurrencyCollectionPruned,
                                    custom=B.mc_state_extra_pruned(B.CurrencyCollectionPruned))
REAL_BLOCK = B.block(state=B.shard_state(_REAL_STATE, exotic_ok=True), extra=B.block_extra(exotic_ok=True), exotic_ok=True)


def real_block_boc():
    from harness import core
    for root in (core.REPO, '/repo'):
        p = os.path.join(root, 'tests', 'test_cell.py')
        if os.path.exists(p):
            with open(p) as fh:
                m = re.search(r"block_boc = '([A-Za-z0-9+/=]+)'", fh.read())
            if m:
                return base64.b64decode(m.group(1))
    raise FileNotFoundError('tests/test_cell.py with block_boc not found')


def _component(v, comp):
    """the part of the block value that a component compares (same projection for expected and parsed)"""
    if not isinstance(v, dict):
        return v
    if comp in ('global_id', 'info', 'value_flow'):
        return v.get(comp, MISSING)
    su, ex = v.get('state_update', MISSING), v.get('extra', MISSING)
    if comp == 'state_update.hashes':
        return {k: su.get(k, MISSING) for k in ('old_hash', 'new_hash')} if isinstance(su, dict) else su
    if comp in ('state_update.old', 'state_update.new'):
        return su.get(comp.split('.')[1], MISSING) if isinstance(su, dict) else su
    if not isinstance(ex, dict):
        return ex
    if comp == 'extra.header':
        return {k: ex.get(k, MISSING) for k in ('_', 'rand_seed', 'created_by')}
    if comp == 'extra.dictionaries':
        return {k: ex.get(k, MISSING) for k in ('_', 'in_msg_descr', 'out_msg_descr', 'account_blocks')}
    return ex.get('custom', MISSING)


def check_real_block(case):
    from harness.ref import refboc
    from pytoniq_core.boc import Cell
    from pytoniq_core.tlb.block import Block
    comp = case['component']
    data = real_block_boc()
    root = refboc.decode_strict(data)['root_cells'][0]
    if root.repr_hash().hex() != BLOCK_HASH:
        raise ValueError('the bundled block is not the pinned one')
    exp = R.strip_either(R.from_cell(REAL_BLOCK, root))
    ok, obj = call(lambda: Block.deserialize(Cell.one_from_boc(data).begin_parse()))
    if not ok:
        return _select([Fail(f'real-block/raises/{exc_sig(obj)}', f'Block.deserialize raised {obj!r}')])
    got = conv(REAL_BLOCK, exp, obj, R.Ctx())
    e, g = _component(exp, comp), _component(got, comp)
    if not isinstance(e, dict):
        fails = [] if R.diff(e, g) is None else [Fail(f'Block/{comp}/{_kind(e, g)}', f'parsed {_short(g)} != {_short(e)}')]
    else:
        fails = field_failures('Block', e, g, innermost=True)
    return _select(fails)


def enum_real(tier):
    for c in COMPONENTS:
        yield {'component': c}


# --------------------------------------------------------------------------------------------------
# generators

def gen_tail(ch):
    n = ch.choice([0, 1, 1, 2, 7, 8, 33, 64, ch.int(0, 64)])
    return {'bits': ch.bits(n), 'nrefs': ch.choice([0, 0, 1, 1, 2])}


def gen_case(ch, name=None, gen_type=None, budget=3):
    if name is None:
        names = [n for n in TYPES for _ in range(WEIGHTS.get(n, 1))]
        name = ch.choice(names)
    v = R.generate(gen_type if gen_type is not None else TYPES[name][1], ch, budget=budget)
    return {'type': name, 'v': v, 'tail': gen_tail(ch)}


@st.composite
def st_case(draw):
    return gen_case(R.HypChooser(draw))


def strat_random(tier):
    return st_case()


def _c(t, v):
    return R.Const(t, v)


def grid():
    """(type name, label, generation type) for every constructor alternative x flag / optional-field combination"""
    V, P, A = B.variant, B.Present, B.Absent
    out = []
    for name in ('ShardIdent', 'ExtBlkRef', 'BlkMasterInfo', 'BlkPrevInfo0', 'BlkPrevInfo1', 'GlobalVersion', 'SigPubKey',
                 'DepthBalanceInfo', 'ConfigParams'):
        out.append((name, 'plain', TYPES[name][1]))
    for nm in (0, 1):
        for am in (0, 1):
            for vi in (0, 1):
                for fl in (0, 1):
                    out.append(('BlockInfo', f'not_master={nm},after_merge={am},vert_seqno_incr={vi},flags={fl}',
                                V(B.BlockInfo, not_master=_c(R.U(1), nm), after_merge=_c(R.U(1), am),
                                  vert_seqno_incr=_c(R.U(1), vi), flags=_c(R.U(8), fl))))
    out.append(('ValueFlow', 'value_flow', B.value_flow))
    out.append(('ValueFlow', 'value_flow_v2', B.value_flow_v2))
    for fsm in (B.fsm_none, B.fsm_split, B.fsm_merge):
        out.append(('FutureSplitMerge', fsm.name, fsm))
        out.append(('ShardDescr', f'shard_descr,{fsm.name}', V(B.shard_descr_small, split_merge_at=fsm)))
        out.append(('ShardDescr', f'shard_descr_new,{fsm.name}', V(B.shard_descr_new, split_merge_at=fsm)))
    for depth_budget in (1, 2, 3):
        out.append(('ShardHashes', f'budget={depth_budget}', (B.shard_hashes(B.ShardDescrGen, counts=(1, 2)), depth_budget)))
    out.append(('ShardHashes', 'empty', (B.ShardHashesGen, 0)))
    out.append(('ValidatorDescr', 'validator', B.validator))
    out.append(('ValidatorDescr', 'validator_addr', B.validator_addr))
    for d in (B.validator, B.validator_addr, B.ValidatorDescr):
        for cnt in (1, 2, 3, 6):
            out.append(('ValidatorSet', f'validators,{d.name},n={cnt}', V(B.validators, list=R.Hashmap(16, d, counts=(cnt,)))))
        for cnt in (0, 1, 2, 3, 6):
            out.append(('ValidatorSet', f'validators_ext,{d.name},n={cnt}',
                        V(B.validators_ext, list=R.HashmapE(16, d, counts=(cnt,)))))
    out.append(('CatchainConfig', 'catchain_config', B.catchain_config))
    out.append(('CatchainConfig', 'catchain_config_new', B.catchain_config_new))
    for fl, stats in ((0, None), (1, B.block_create_stats), (1, B.block_create_stats_ext)):
        for lk in (A, P):
            for pb in ((0,), (1, 2, 3)):
                over = dict(flags=_c(R.U(16), fl), last_key_block=lk(B.ExtBlkRef), shard_hashes=B.ShardHashesGen,
                            prev_blocks=R.HashmapAugE(32, B.KeyExtBlkRef, B.KeyMaxLt, counts=pb))
                if stats is not None:
                    over['block_create_stats'] = stats
                out.append(('McStateExtra', f'flags={fl},stats={stats.name if stats else None},last_key_block={lk.__name__},'
                                            f'prev_blocks={"empty" if pb == (0,) else "some"}', V(B.McStateExtra, **over)))
    for kb in (0, 1):
        for rc in (A, P):
            for mm in (A, P):
                for sf in ((0,), (1, 2)):
                    out.append(('McBlockExtra', f'key_block={kb},recover_create_msg={rc.__name__},mint_msg={mm.__name__},'
                                                f'shard_fees={"empty" if sf == (0,) else "some"}',
                                V(B.McBlockExtraGen, key_block=_c(R.U(1), kb), recover_create_msg=rc(R.RefCell),
                                  mint_msg=mm(R.RefCell), shard_fees=R.HashmapAugE(96, B.ShardFeeCreated, B.ShardFeeCreated, counts=sf))))
    for cu in (A, P):
        out.append(('BlockExtra', f'custom={cu.__name__}', V(B.BlockExtraGen, custom=cu(R.Ref(B.McBlockExtraGen)))))
    for mr in (A, P):
        for cu in (A, P):
            out.append(('ShardStateUnsplit', f'master_ref={mr.__name__},custom={cu.__name__}',
                        V(B.ShardStateUnsplitGen, master_ref=mr(B.BlkMasterInfo), custom=cu(R.Ref(B.McStateExtraGen)))))
    out.append(('Block', 'unsplit', B.block(state=B.ShardStateUnsplitGen, extra=B.BlockExtraGen)))
    out.append(('Block', 'split', B.block(state=B.shard_state(B.ShardStateUnsplitGen).by_name['split_state'], extra=B.BlockExtraGen)))
    return out


def enum_grid(tier):
    reps = 3 if tier == 'quick' else 24
    for name, label, gt in grid():
        budget = 3
        if isinstance(gt, tuple):
            gt, budget = gt
        for mode in ('min', 'max'):
            try:
                v = R.generate(gt, R.FixedChooser(mode), budget=budget)
            except R.ModelError:
                continue
            yield {'type': name, 'v': v, 'tail': {'bits': '10' if mode == 'min' else '0' * 9 + '1', 'nrefs': 1}}
        for i in range(reps):
            yield gen_case(R.HashChooser(f'c16-blk-grid/{name}/{label}/{i}'), name, gt, budget)


def _shapes(n):
    """every binary-tree shape with n leaves: 'L' or (left, right)"""
    if n == 1:
        return ['L']
    out = []
    for k in range(1, n):
        for l in _shapes(k):
            for r in _shapes(n - k):
                out.append((l, r))
    return out


def enum_bintree_shapes(tier):
    """ShardHashes whose BinTree has EVERY shape with 1..5 leaves (thorough: 6) plus left / right combs of depth 8: the leaves
    are handed out left to right whatever the shape (a deeper leaf left of a shallower one included); 1 and 2 workchains"""
    shapes = [sh for n in range(1, 6 if tier == 'quick' else 7) for sh in _shapes(n)]
    comb_l, comb_r = 'L', 'L'
    for _ in range(8):
        comb_l, comb_r = (comb_l, 'L'), ('L', comb_r)
    shapes += [comb_l, comb_r]
    for si, sh in enumerate(shapes):
        ch = R.HashChooser(f'c16-blk-bintree/{si}')
        cnt = [0]

        def build(x):
            if x == 'L':
                cnt[0] += 1
                return {'_': 'bt_leaf', 'leaf': R.generate(B.ShardDescrGen, ch, budget=2)}
            return {'_': 'bt_fork', 'left': build(x[0]), 'right': build(x[1])}
        v = [[0, build(sh)]]
        if si % 3 == 0:
            v.append([(si * 2654435761) % (1 << 31) + 1, build(shapes[(si * 7 + 3) % len(shapes)])])
            v.sort(key=lambda kv: kv[0])
        yield {'type': 'ShardHashes', 'v': v, 'tail': {'bits': '101' if si % 2 else '', 'nrefs': si % 2}, 'shape': repr(sh)[:60]}


# --------------------------------------------------------------------------------------------------
# classification

def _walk(v, ctors, flags, path=''):
    if isinstance(v, dict):
        if set(v) >= {'bits', 'refs'} and '_' not in v:
            return
        c = v.get('_')
        if c in B.CTORS:
            ctors.add(c)
        for k, x in v.items():
            if k == '_':
                continue
            if isinstance(x, int) and not isinstance(x, bool) and x >= (1 << 31) and x.bit_length() in (32, 64):
                flags.add('top-bit-set')
            if x is not None and k in ('gen_software', 'master_ref', 'prev_vert_ref', 'last_key_block', 'block_create_stats',
                                       'recover_create_msg', 'mint_msg', 'config', 'custom', 'total_weight', 'burned'):
                flags.add('optional-present')
            _walk(x, ctors, flags)
    elif isinstance(v, list):
        for x in v:
            _walk(x, ctors, flags)


FIRST_CTORS = {'shard_ident', 'ext_blk_ref', 'master_info', 'prev_blk_info', 'capabilities', 'block_info', 'value_flow', 'fsm_none',
               'shard_descr', 'ed25519_pubkey', 'validator', 'validators', 'catchain_config', 'currencies', 'extra_currencies',
               'bt_leaf', 'depth_balance', 'ConfigParams', 'masterchain_state_extra', 'masterchain_block_extra', 'block_extra',
               'shard_state', 'block', 'validator_info', 'KeyMaxLt', 'KeyExtBlkRef', 'counters', 'creator_info',
               'block_create_stats', 'ed25519_signature', 'sig_pair', 'ShardFeeCreated', 'import_fees', 'account_descr',
               'account_none', 'shared_lib_descr', 'true', 'merkle_update', 'certificate', 'signed_certificate'}


def classify(case):
    ctors, flags = set(), set()
    _walk(case['v'], ctors, flags)
    out = ['type=' + case['type']] + [f'ctor={B.CTORS[c][1]}' for c in sorted(ctors)] + sorted(flags)
    v = case['v']
    if case['type'] == 'BlockInfo':
        out.append(f'BlockInfo:not_master={v["not_master"]},after_merge={v["after_merge"]},'
                   f'vert_seqno_incr={v["vert_seqno_incr"]},flags={v["flags"]}')
    if case['type'] == 'ValidatorSet':
        out.append(f'ValidatorSet:{v["_"]},entries={min(len(v["list"]), 4)}')
    out.append(f'tail={"none" if not case["tail"]["bits"] and not case["tail"]["nrefs"] else "present"}')
    return out


def nontrivial(case):
    ctors, flags = set(), set()
    _walk(case['v'], ctors, flags)
    return bool(flags) or bool(ctors - FIRST_CTORS)


def classify_real(case):
    return ['component=' + case['component']]


# --------------------------------------------------------------------------------------------------
# parsers called by several threads at the same time

HAMMER_ROUNDS = {'Block': 4, 'ShardStateUnsplit': 6, 'McStateExtra': 8, 'McBlockExtra': 10, 'BlockExtra': 8, 'ShardHashes': 12,
                 'ConfigParams': 12, 'ValidatorSet': 12, 'BlockInfo': 25, 'ValueFlow': 20, 'ShardDescr': 25}


def _reading(case):
    """('<Type>/<ctor>', thunk): the thunk parses the prepared cell (value + tail) through the type's entry point and returns, as
    text, every schema field read from the result and what is left in the slice"""
    from harness.gen.dag import lib_from_rcell
    name = case['type']
    t = TYPES[name][0]
    cell, _, _ = build(case)
    lc = lib_from_rcell(cell)
    parse = _lib(name)
    exp = R.strip_either(case['v'])

    def thunk():
        s = lc.begin_parse()
        obj = parse(s)
        rb, rr, _ = _rest_of(s)
        return repr((conv(t, exp, obj, R.Ctx()), rb, [c.repr_hash().hex() for c in rr]))
    return f'{type_name(name)}/{ctor_label(case["v"])}', thunk


def check_hammer(case):
    """several values of ONE covered type (one constructor alternative / flag combination) are encoded into cells one after the
    other; then 4 threads parse these cells in tight loops at the same time (core.hammer: nothing but the parser calls overlaps).
    Every call must return what the same call returns alone: the fields of ITS value, ITS tail left over."""
    from harness.core import hammer
    calls = [_reading(it) for it in case['items']]
    if len(calls) < 2:
        return None
    return hammer(calls, threads=4, rounds=case.get('rounds') or min(HAMMER_ROUNDS.get(it['type'], 40) for it in case['items']))


def enum_hammer(tier):
    """every row of the constructor grid (constructor alternative x flag / optional-field combination of every covered type):
    3 hash-chosen values of that row - all threads are inside the same parser branch, with different field values"""
    reps = 1 if tier == 'quick' else 6
    for rep in range(reps):
        for name, label, gt in grid():
            budget = 2
            if isinstance(gt, tuple):
                gt, budget = gt
            items = []
            for i in range(3):
                try:
                    items.append(gen_case(R.HashChooser(f'c16-blk-hammer/{rep}/{name}/{label}/{i}'), name, gt, budget))
                except R.ModelError:
                    pass
            if len(items) >= 2:
                yield {'items': items, 'row': f'{name}: {label}'}


def classify_hammer(case):
    out = ['hammer:parsers']
    for it in case['items']:
        out.append('type=' + it['type'])
        out.append('ctor=' + ctor_label(it['v']))
    return out


SUBCHECKS = [
    Sub('blk-ctor-grid', check_value, enum=enum_grid, classify=classify, nontrivial=nontrivial, shards=(16, 16),
        note='every constructor alternative x flag / optional-field combination of the covered block-level types, hash-chosen '
             'and min / max field values, sentinel tail appended'),
    Sub('blk-bintree-shapes', check_value, enum=enum_bintree_shapes, classify=classify, nontrivial=nontrivial, shards=(8, 16),
        exhaustive=True, note='ShardHashes with every BinTree shape of 1..5 (thorough 6) leaves and depth-8 combs'),
    Sub('blk-random', check_value, strategy=strat_random, classify=classify, nontrivial=nontrivial,
        n=(1200, 30000), shards=(16, 32)),
    Sub('blk-real-block', check_real_block, enum=enum_real, classify=classify_real, exhaustive=True, shards=(3, 3),
        note='the main-net block of tests/test_cell.py decoded by refboc + reftlb, compared component by component with '
             'Block.deserialize'),
    Sub('two-threads-blk-parsers', check_hammer, enum=enum_hammer, classify=classify_hammer, nontrivial=lambda case: True,
        shards=(8, 16), case_cpu_s=120.0,
        note='every row of the constructor grid: 3 values of that row encoded into cells, then parsed by 4 threads in tight loops '
             'at the same time (core.hammer, switch interval 1 us). Oracle = the fields and the remaining slice each parse yields '
             'alone'),
]
