"""
C11 — Merkle proof checks are complete and sound.

Library entry points (pytoniq_core/proof/check_proof.py):
    check_proof(cell, hash_)                                   generic: cell must be a Merkle-proof cell for hash_
    check_block_header_proof(root_cell, block_hash, store_state_hash)   root_cell = the (pruned) block root, i.e. the child
                                                               of the Merkle-proof cell; returns the new state hash on request
    check_account_proof(proof_boc, shrd_blk, address, account_state_root, return_account_descr)
                                                               proof_boc = two roots: Merkle proof of the block, Merkle proof of
                                                               the shard state
All return for "accepted" and raise for "rejected" (any exception type is a rejection).

How cases are built (everything by the reference model harness/ref/refcell.py — nothing from the library):
  tree T (level 0) -> pruned copy T' (chosen sub-trees replaced by create_pruned_branch at their Merkle depth) -> proof cell
  MP(T').  The model guarantees H(T', 0) == H(T, 0) (self-checked for every case; a disagreement is a harness error).
Completeness: the honest proof is accepted against H(T, 0)  [generic / header (+ extracted new-state hash == the hash the block's
  Merkle update commits to) / account].
Soundness: a mutant is *invalid* iff its proof root is not a Merkle-proof cell, or the hash stored in the proof root differs from
  the expected hash, or the level-0 hash of its child differs from the expected hash (generic); for the header check iff the
  level-0 hash of the presented block root differs from the block hash — and when it does NOT differ (the mutant kept the block
  hash, e.g. a level-lifted pruned branch below the Merkle update) the extracted state hash must still be the committed one;
  for the account check iff anything differs from the honest triple (proof, address, claimed state) in a way listed below.
  Invalid mutants must raise.  Mutants that stay valid by this definition are counted ("mutant-still-valid") and not judged.

Kinds of use beyond the stand-alone proof
  * nested (sub-checks nested-proof, block-header-proof with 'nest'): the proof cell M = MP(T') is a reference of an ordinary cell U
    (with leaf siblings, any position) that is proven in turn, O = MP(prune(U)), one or two layers deep.  Below M the outer proof
    prunes at Merkle depth 2 (3): level-2/3 pruned branches next to M's own level-1 ones, so the carried proof cell M' has a
    non-zero level (child masks 010, 011, 101, 110, 111 ...).  M' still stores, and its child still has, the level-0 hash of T: it is
    accepted against H(T, 0) both when taken out of the outer proof (O[0][pos]...) and stand-alone, O is accepted against H(U, 0),
    and the block root taken from a carried block proof passes the header check and yields the committed state hash.  The same
    mutations are applied below M'.
  * one bag, several proofs (sub-check bag-of-proofs): the honest proof (or the case's mutant) together with 1..3 variants of it as
    the roots of ONE bag of cells (any root order, any valid cell order) or as the children of one ordinary cell (bag or builder);
    every proof cell is judged by itself: the honest one accepted, every invalid one rejected.  The variants are biased towards
    TWINS - cells with equal data and equal references that differ only in kind: the ordinary twin of the proof cell
    ('root-ordinary'), the ordinary twin of an exotic cell below it ('unexotic'), the exotic twin of an ordinary cell that has the
    exact layout of an exotic cell ('exoticise'; such look-alike cells are planted into the tree by case['alike']: ordinary cell
    with the data of a pruned branch / library cell (0 refs), Merkle proof (1 ref), Merkle update (2 refs) over its own children).

Mutations (generic + header, applied to a cell below the proof root chosen by index): data bit flip (ordinary cells; for exotic
cells only in their hash/depth fields), drop / swap / duplicate / retarget a reference, substituted stored hash or depth of a
pruned branch, a flipped bit of the hash stored in the proof root, level-lift of a pruned branch (mask m -> m | 2^j keeping every hash at levels <= j, plus an attacker-chosen lower
stored hash), proof root turned into an ordinary cell with the same data, expected hash random / one bit flipped; each either
with the stale proof-root data or with the proof root recomputed (self-consistent forgery).
Account mutants: claimed state = pruned branch carrying the committed hash / the account cell with one child pruned (level-0 hash = committed, own hash not) / another account's cell / one flipped bit;
the committed hash wrapped in an exotic cell built from public data alone ('claimed-exotic-wrap', list WRAPS: Merkle proof over a pruned
branch carrying it / over the partly pruned or the full state, Merkle proof over Merkle proof, Merkle proof / library cell / Merkle update /
higher-level pruned branches naming it, and ordinary twins);
address of another account / absent address; the asked account's branch pruned away and "no state" claimed; other block hash; state proof of a different state; header forgery with a forged
state; wrong number of roots; one of the two roots replaced by the ordinary twin of the proof cell (optionally with the real proof cell kept
in the bag as a cell no root reaches, right after its twin or as cell 0) or with one bit of its stored hash flipped; any of the generic
mutations applied to a cell below the block-proof root or the state-proof root, root data kept ('proof-cell-mutation'; in a third of the
cases the bag stores hashes with every cell and the altered cells carry the honest cells' stored values).

Account dictionaries: 1..6 ids, random / sharing all but 16 bits / base+2i / 'one-bit' (every other id differs from one base id in
exactly one bit, first and last positions preferred, base also 0, 1, 2^256-1 ...) / 'siblings' (the pair k, k^1 - leaf with an empty
label directly below a fork on the LAST key bit - plus neighbours in the last three bits or the first).  Sub-check
account-proof-fork-grid enumerates two accounts differing in exactly one bit for every bit position 0..255 (plus all-zero / all-one
common parts and a third close account at the ends), each of the two proven: honest (also the returned descriptor's last_trans_lt and
last_trans_hash are those of the proven leaf), the sibling's address, the sibling's state, an exotic wrap of the hash.

Deliberately NOT asserted
  * rejection of a changed *depth field of the proof root cell itself* (the statement lists hash, data/structure of unpruned
    cells, pruned hashes, cell kind, account state);
  * rejection of proofs whose inner exotic cells are inconsistent but whose committed level-0 hash is intact (C02's "spec-invalid
    exotic cells" are out of scope) — such mutants are "still valid" by the definition above;
  * exception types.
"""
import hashlib

from hypothesis import strategies as st

from harness.core import Sub, Fail, call, exc_sig, HarnessError
from harness.gen import dag
from harness.ref import refcell as rc, refboc, refbits as rb, refdict

RULE = ('generic: case = exotic/ordinary DAG spec (normalised to level 0 by wrapping in Merkle proofs), prune selection (node '
        'indexes), construction route (builder / reference-encoded BoC), optional mutation. header: block-shaped root with 4 '
        'references whose third is a Merkle update over (pruned | full | partly pruned) old and new state trees. account: '
        'hand-encoded ShardStateUnsplit with 1..6 accounts in a HashmapAugE 256 (ids random / shared prefix / differing from a base id '
        'in exactly one bit / sibling pairs k, k^1), pruned to the path of one account, two-root proof BoC; claimed-state mutants '
        'include exotic cells built from the committed hash alone. account-proof-fork-grid: two accounts differing in one bit, '
        'every bit position 0..255, each proven (honest + sibling address / sibling state / wrapped hash). nested: the proof cell as a reference of an ordinary cell that is proven again (1-2 layers, outer pruning '
        'below the carried proof -> proof cell of level 1..2), checked inside and outside the outer proof; header cases carry the '
        'block proof the same way in 1 of 4 cases. bag-of-proofs: honest proof + 1..3 variants (ordinary/exotic twins preferred) as '
        'roots of one bag or children of one cell, each judged by itself; trees may hold ordinary cells with the layout of an '
        'exotic cell. non-trivial = proof with >= 1 pruned branch, or a mutant below the root; distinct = distinct case')
ASSUMPTIONS = ['harness/ref/refcell.py (level hashes, create_pruned_branch; validated against the pinned main-net block and by '
               'the model-free pruning relation of C02)', 'harness/ref/refdict.py HashmapAug builder, refbits TL-B writers',
               'sha256 collision freedom (a mutant with a different level-0 hash is a different commitment)']


# --------------------------------------------------------------------------------------------------
# reference-tree utilities

def normalise(root):
    """any cell -> level-0 tree (wrap in Merkle proofs until the level is 0)"""
    while root.level() > 0:
        root = rc.merkle_proof(root)
    return root


def prune(root, sel, depth0):
    """copy of `root` in which every cell whose representation hash is in `sel` (the root excepted) is replaced by its pruned
    branch of level = its Merkle depth (depth0 + number of Merkle cells above it), when TON allows it (level(cell) < depth <= 3)"""
    memo = {}

    def go(c, depth, is_root):
        key = (c.repr_hash(), depth)
        r = memo.get(key)
        if r is not None:
            return r
        if not is_root and c.repr_hash() in sel and c.level() < depth <= 3:
            r = rc.pruned_branch_of(c, depth)
        else:
            shift = 1 if c.type in (rc.MPROOF, rc.MUPDATE) else 0
            nr = [go(x, depth + shift, False) for x in c.refs]
            r = c if all(a is b for a, b in zip(nr, c.refs)) else rc.RCell(c.bits, nr, c.special)
        memo[key] = r
        return r

    out = go(root, depth0, True)
    for i in range(depth0):
        if out.HD(i) != root.HD(i):
            raise HarnessError('reference model: pruning changed a hash below the pruning level')
    return out


def replace(root, target_hash, make):
    """copy of root where every occurrence of the cell with representation hash target_hash is make(cell, new_refs)"""
    memo = {}

    def go(c):
        h = c.repr_hash()
        r = memo.get(h)
        if r is not None:
            return r
        nr = [go(x) for x in c.refs]
        if h == target_hash:
            r = make(c, nr)
        elif all(a is b for a, b in zip(nr, c.refs)):
            r = c
        else:
            r = rc.RCell(c.bits, nr, c.special)
        memo[h] = r
        return r

    return go(root)


def flip(bits, j):
    return bits[:j] + ('1' if bits[j] == '0' else '0') + bits[j + 1:]


def pruned_fields(c):
    data = c.data_padded()
    m = data[1]
    n = bin(m).count('1')
    hs = [data[2 + 32 * i: 34 + 32 * i] for i in range(n)]
    ds = [int.from_bytes(data[2 + 32 * n + 2 * i: 4 + 32 * n + 2 * i], 'big') for i in range(n)]
    return m, hs, ds


def attacker_hash(tag):
    return hashlib.sha256(b'attacker/' + str(tag).encode()).digest()


def mutate(child, mut):
    """child = the tree below the proof root.  returns (new child, class label) or (None, reason) when not applicable"""
    nodes = rc.topo([child])
    kind = mut['kind']
    t = nodes[mut['t'] % len(nodes)]
    th = t.repr_hash()
    a, b = mut.get('a', 0), mut.get('b', 0)
    if kind == 'data-flip':
        if not t.special:
            if len(t.bits) == 0:
                return replace(child, th, lambda c, nr: rc.RCell('1', nr, False)), 'data-flip/empty->1'
            return replace(child, th, lambda c, nr: rc.RCell(flip(c.bits, a % len(c.bits)), nr, False)), 'data-flip/ordinary'
        lo = 16 if t.type == rc.PRUNED else 8
        if len(t.bits) <= lo:
            return None, 'no-field-bits'
        j = lo + a % (len(t.bits) - lo)
        return replace(child, th, lambda c, nr: rc.RCell(flip(c.bits, j), nr, True)), f'data-flip/type{t.type}'
    if kind in ('ref-drop', 'ref-swap', 'ref-dup', 'ref-retarget'):
        elig = [c for c in nodes if not c.special and c.refs and (kind != 'ref-swap' or len(set(x.repr_hash() for x in c.refs)) > 1)
                and (kind != 'ref-dup' or len(c.refs) < 4)]
        if not elig:
            return None, 'no-eligible-cell'
        t = elig[mut['t'] % len(elig)]
        th = t.repr_hash()
        k = a % len(t.refs)
        if kind == 'ref-drop':
            return replace(child, th, lambda c, nr: rc.RCell(c.bits, nr[:k] + nr[k + 1:], False)), kind
        if kind == 'ref-swap':
            if len(t.refs) < 2:
                return None, 'single-ref'
            k2 = (k + 1 + b % (len(t.refs) - 1)) % len(t.refs)

            def sw(c, nr):
                nr = list(nr)
                nr[k], nr[k2] = nr[k2], nr[k]
                return rc.RCell(c.bits, nr, False)
            return replace(child, th, sw), kind
        if kind == 'ref-dup':
            if len(t.refs) >= 4:
                return None, 'four-refs'
            return replace(child, th, lambda c, nr: rc.RCell(c.bits, nr + [nr[k]], False)), kind
        # retarget: to a cell that comes later in the parents-first order (never an ancestor)
        idx = next(i for i, c in enumerate(nodes) if c is t)
        later = nodes[idx + 1:]
        if not later:
            return None, 'no-later-cell'
        u = later[b % len(later)]

        def rt(c, nr):
            nr = list(nr)
            nr[k] = u
            return rc.RCell(c.bits, nr, False)
        return replace(child, th, rt), kind
    if kind in ('pruned-hash', 'pruned-depth', 'lift'):
        pr = [c for c in nodes if c.type == rc.PRUNED]
        if not pr:
            return None, 'no-pruned-branch'
        t = pr[mut['t'] % len(pr)]
        th = t.repr_hash()
        m, hs, ds = pruned_fields(t)
        if kind == 'pruned-hash':
            i = a % len(hs)
            hs2 = list(hs)
            hs2[i] = attacker_hash(b) if b % 2 else bytes([hs[i][0] ^ 1]) + hs[i][1:]
            return replace(child, th, lambda c, nr: rc.pruned_raw(m, hs2, ds)), kind
        if kind == 'pruned-depth':
            i = a % len(ds)
            ds2 = list(ds)
            ds2[i] = (ds[i] + 1 + b % 5) % 1024
            return replace(child, th, lambda c, nr: rc.pruned_raw(m, hs, ds2)), kind
        free = [j for j in range(3) if not (m >> j) & 1]
        if not free:
            return None, 'mask-7'
        j = free[a % len(free)]
        m2 = m | (1 << j)
        p = bin(m2 & ((1 << j) - 1)).count('1')
        hs2 = hs[:p] + [t.H(j)] + hs[p:]            # keeps every hash at levels <= j
        ds2 = ds[:p] + [t.D(j)] + ds[p:]
        sub = mut.get('sub', True)
        if sub:                                      # attacker-chosen lower hash
            q = b % (p + 1)
            hs2[q] = attacker_hash(('lift', b))
            ds2[q] = (ds2[q] + 1) % 1024
        return replace(child, th, lambda c, nr: rc.pruned_raw(m2, hs2, ds2)), 'lift+subst' if sub else 'lift-only'
    if kind == 'unexotic':
        # the ordinary twin of an exotic cell: same data, same references, only the kind differs
        ex = [c for c in nodes if c.special]
        if not ex:
            return None, 'no-exotic-cell'
        t = ex[mut['t'] % len(ex)]
        return replace(child, t.repr_hash(), lambda c, nr: rc.RCell(c.bits, nr, False)), f'unexotic/type{t.type}'
    if kind == 'exoticise':
        # the exotic twin of an ordinary cell whose data and references happen to have the exact layout of an exotic cell
        el = [c for c in nodes if exotic_twin(c) is not None]
        if not el:
            return None, 'no-lookalike-cell'
        t = el[mut['t'] % len(el)]
        return replace(child, t.repr_hash(), lambda c, nr: rc.RCell(c.bits, nr, True)), f'exoticise/type{int(t.bits[:8], 2)}'
    raise HarnessError(f'unknown mutation {kind}')


def exotic_twin(c):
    """the well-formed exotic cell with the data and references of the ordinary cell c, or None"""
    if c.special or len(c.bits) < 8 or int(c.bits[:8], 2) not in (rc.PRUNED, rc.LIBRARY, rc.MPROOF, rc.MUPDATE):
        return None
    try:
        e = rc.RCell(c.bits, c.refs, True)
    except Exception:
        return None
    return e if rc.spec_invalid(e) is None else None


def lookalike(T, spec):
    """copy of the level-0 tree T in which one ordinary cell below the root got the data an exotic cell would have over the
    same references (0 refs: pruned branch / library cell, 1: Merkle proof, 2: Merkle update) - still an ORDINARY cell"""
    nodes = [c for c in rc.topo([T])[1:] if not c.special and len(c.refs) <= 2]
    if not nodes:
        return T
    t = nodes[spec['t'] % len(nodes)]
    if len(t.refs) == 0:
        if spec['a'] % 3 == 2:
            bits = rc.library_ref(attacker_hash(('alike', spec['a']))).bits
        else:
            m = [1, 2, 4, 3, 7][(spec['a'] // 3) % 5]
            n = bin(m).count('1')
            bits = rc.pruned_raw(m, [attacker_hash(('alike', spec['a'], j)) for j in range(n)], [(spec['a'] + j) % 7 for j in range(n)]).bits
    elif len(t.refs) == 1:
        bits = rc.merkle_proof(t.refs[0]).bits
    else:
        bits = rc.merkle_update(t.refs[0], t.refs[1]).bits
    out = replace(T, t.repr_hash(), lambda c, nr: rc.RCell(bits, nr, False))
    if out.level() != 0:
        raise HarnessError('lookalike changed the level of the tree')
    return out


def walk(c, path):
    for i in path:
        c = c.refs[i] if isinstance(c, rc.RCell) else c[i]
    return c


def nest(M, layers, keep_fn=None):
    """the proof cell M carried by a bigger structure that is proven in turn, once per layer:
         U = ordinary cell(bits; leaf siblings and the current proof cell at position pos);  O = MerkleProof(prune(U, sel))
    below M the Merkle depth is 1 + number of layers, so the cells of M's tree that `sel` names become pruned branches of level
    2 (3 in the second layer) and the carried proof cell M' gets a non-zero level.  The cells that carry M' (and keep_fn(M'))
    are never pruned.  Returns (outermost proof cell, path of reference indexes from it down to M')."""
    cur, path = M, []
    for ly in layers:
        sibs = [rc.RCell(dag.node_bits({'b': b}), [], False) for b in ly['sib'][:3]]
        pos = ly['pos'] % (len(sibs) + 1)
        U = rc.RCell(dag.node_bits({'b': ly['b']}), sibs[:pos] + [cur] + sibs[pos:], False)
        down = [pos] + path
        protect = set()
        c = U
        for i in down:
            c = c.refs[i]
            protect.add(c.repr_hash())
        if keep_fn is not None:
            protect |= keep_fn(c)
        nodes = rc.topo([U])
        sel = {nodes[i % len(nodes)].repr_hash() for i in ly['prune']} - protect
        cur = rc.merkle_proof(prune(U, sel, 1))
        path = [0] + down
    return cur, path


def st_nest(max_layers=2):
    layer = st.fixed_dictionaries({'b': dag.st_bits(32), 'sib': st.lists(dag.st_bits(24), max_size=3), 'pos': st.integers(0, 3),
                                   'prune': st.lists(st.integers(1, 63), min_size=1, max_size=6)})
    return st.lists(layer, min_size=1, max_size=max_layers)


def to_lib(root, route):
    """reference tree -> library cell; returns (ok, cell or exception)"""
    from pytoniq_core.boc.cell import Cell
    if route == 'boc':
        data = refboc.encode([root], has_crc=True)
        return call(Cell.one_from_boc, data)
    return call(dag.lib_from_rcell, root, 'builder')


# --------------------------------------------------------------------------------------------------
# generic check_proof

def _generic_parts(case):
    cells = dag.build_ref(case['spec'])
    T = normalise(cells[-1])
    if case.get('alike'):
        T = lookalike(T, case['alike'])
    nodes = rc.topo([T])
    sel = {nodes[i % len(nodes)].repr_hash() for i in case['prune']}
    Tp = prune(T, sel, 1)
    return T, Tp


def forge(P0, h, mut):
    """honest proof cell P0 (for hash h) + mutation -> (forged proof cell, expected hash) or None when not applicable"""
    kind = mut['kind']
    child = P0.refs[0]
    if kind == 'hash-random':
        return P0, attacker_hash(mut.get('a', 0))
    if kind == 'hash-flip':
        return P0, bytes(x ^ (1 << (mut['a'] % 8) if i == (mut['a'] // 8) % 32 else 0) for i, x in enumerate(h))
    if kind == 'root-ordinary':                              # the ordinary twin of the proof cell
        return rc.RCell(P0.bits, P0.refs, False), h
    if kind == 'root-is-child':
        return child, h
    if kind == 'root-hash-flip':                             # a bit of the hash stored in the proof root itself
        return rc.RCell(flip(P0.bits, 8 + mut['a'] % 256), P0.refs, True), h
    X, label = mutate(child, mut)
    if X is None:
        return None
    if mut.get('fix_root', False):
        return rc.merkle_proof(X), h                         # self-consistent forgery
    return rc.RCell(P0.bits, [X], True), h                   # stale proof-root data


def is_valid(P, expected):
    return (P.special and P.type == rc.MPROOF and len(P.refs) == 1 and P.data_padded()[1:33] == expected
            and P.refs[0].H(0) == expected)


def _detail(P, expected, mut):
    return (f'mutation {mut} accepted; root stored hash {"==" if P.data_padded()[1:33] == expected else "!="} expected, child '
            f'level-0 hash {"==" if P.refs and P.refs[0].H(0) == expected else "!="} expected')


def _nested(case, T, Tp):
    """(outermost proof O, path to the carried proof, the carried proof M') for case['nest']"""
    O, path = nest(rc.merkle_proof(Tp), case['nest'])
    Mi = walk(O, path)
    if not is_valid(Mi, T.H(0)) or not is_valid(O, O.refs[0].H(0)):
        raise HarnessError('reference model: the carried proof no longer commits to the tree')
    return O, path, Mi


def check_generic(case):
    from pytoniq_core.proof.check_proof import check_proof
    T, Tp = _generic_parts(case)
    h = T.H(0)
    mut = case.get('mut')
    route = case.get('route', 'builder')
    P0 = rc.merkle_proof(Tp)
    if case.get('bag'):
        return check_bag(case, P0, h)
    where = 'generic'
    if case.get('nest'):
        # a proof inside a proof: the outer proof, then the carried proof cell (level >= 1 when the outer proof pruned below it)
        O, path, P0 = _nested(case, T, Tp)
        where = f'nested/proof-cell-level-{P0.level()}'
        if mut is None:
            ok, lo = to_lib(O, route)
            if not ok:
                return Fail(f'honest-proof/construction-raises/{exc_sig(lo)}', f'outer proof: {lo!r}')
            ok, res = call(check_proof, lo, O.refs[0].H(0))
            if not ok:
                return Fail('honest-proof-rejected/outer-of-nested', f'{exc_sig(res)} {res!r}')
            ok, res = call(check_proof, walk(lo, path), h)
            if not ok:
                return Fail(f'honest-proof-rejected/{where}', f'carried proof taken out of the outer one: {exc_sig(res)} {res!r}; '
                            f'child mask {P0.refs[0].mask():03b}')
    if mut is None:
        ok, lc = to_lib(P0, route)
        if not ok:
            return Fail(f'honest-proof/construction-raises/{exc_sig(lc)}', f'{lc!r}')
        ok, res = call(check_proof, lc, h)
        if not ok:
            return Fail(f'honest-proof-rejected/{where}', f'{exc_sig(res)} {res!r}; pruned={sum(c.type == rc.PRUNED for c in rc.topo([P0]))}'
                        f' child mask {P0.refs[0].mask():03b}')
        return None
    fg = forge(P0, h, mut)
    if fg is None:
        return None
    P, expected = fg
    if is_valid(P, expected):
        return None            # mutant kept the commitment: not judged
    ok, lc = to_lib(P, route)
    if not ok:
        return None            # the forged proof cannot even be constructed/parsed: rejected
    ok, res = call(check_proof, lc, expected)
    if ok:
        return Fail(f'forged-proof-accepted/{where.split("/")[0]}/{mut["kind"]}', _detail(P, expected, mut))
    return None


def check_bag(case, P0, h):
    """several proof cells for the same tree in ONE bag of cells (several roots, or the children of one ordinary cell): the honest
    proof (or the case's mutant) and companions that differ from it in one respect - among them the ordinary twin of the proof cell
    and ordinary / exotic twins of cells below it.  Every proof cell is judged by itself."""
    from pytoniq_core.proof.check_proof import check_proof
    from pytoniq_core.boc.cell import Cell
    bag = case['bag']
    variants = []                                            # (proof cell, expected, mutation or None)
    for m in [case.get('mut')] + list(bag['with']):
        fg = (P0, h) if m is None else forge(P0, h, m)
        if fg is None or any(v[0].repr_hash() == fg[0].repr_hash() for v in variants):
            continue
        if m is not None and not to_lib(fg[0], 'boc')[0]:
            continue                                         # a companion the library refuses on its own is left out of the bag
        variants.append((fg[0], fg[1], m))
    k = bag['perm'] % len(variants) if variants else 0
    variants = variants[k:] + variants[:k]
    if bag['perm'] // 8 % 2:
        variants.reverse()
    variants = variants[:4]
    if not variants:
        return None
    roots = [v[0] for v in variants]
    honest_in = any(v[2] is None for v in variants)
    if bag['embed'] == 'roots':
        data = refboc.encode(roots, has_crc=True, order=refboc.linear_extension(roots, bag['prio']))
        ok, libs = call(Cell.from_boc, data)
    else:
        W = rc.RCell(dag.node_bits({'b': bag['b']}), roots, False)
        if case.get('route') == 'boc':
            ok, lw = call(Cell.one_from_boc, refboc.encode([W], has_crc=True, order=refboc.linear_extension([W], bag['prio'])))
        else:
            ok, lw = call(dag.lib_from_rcell, W, 'builder')
        libs = [lw[i] for i in range(len(roots))] if ok else lw
    if not ok:
        # every member was accepted on its own
        return Fail(f'honest-proof/bag-construction-raises/{exc_sig(libs)}', f'{libs!r}') if honest_in else None
    if len(libs) != len(roots):
        return Fail('honest-proof/bag-root-count', f'{len(libs)} roots for {len(roots)}') if honest_in else None
    for (P, expected, m), lc in zip(variants, libs):
        ok, res = call(check_proof, lc, expected)
        if m is None:
            if not ok:
                return Fail('honest-proof-rejected/generic/in-bag-with-variants', f'{exc_sig(res)} {res!r}; bag also holds '
                            f'{[v[2]["kind"] for v in variants if v[2]]} ({bag["embed"]})')
        elif ok and not is_valid(P, expected):
            return Fail(f'forged-proof-accepted/generic/{m["kind"]}', _detail(P, expected, m) + f'; same bag holds '
                        f'{[v[2]["kind"] if v[2] else "honest" for v in variants]} ({bag["embed"]})')
    return None


MUT_KINDS = ['data-flip', 'data-flip', 'ref-drop', 'ref-swap', 'ref-dup', 'ref-retarget', 'pruned-hash', 'pruned-hash',
             'pruned-depth', 'lift', 'lift', 'unexotic', 'exoticise']
TOP_KINDS = ['hash-random', 'hash-flip', 'root-ordinary', 'root-is-child', 'root-hash-flip']


def st_body_mut(kinds=MUT_KINDS):
    return st.fixed_dictionaries({'kind': st.sampled_from(kinds), 't': st.integers(0, 63), 'a': st.integers(0, 4095),
                                  'b': st.integers(0, 255), 'fix_root': st.booleans(), 'sub': st.sampled_from([True, True, False])})


def st_mut(extra=()):
    body = st_body_mut()
    top = st.fixed_dictionaries({'kind': st.sampled_from(TOP_KINDS + list(extra)), 'a': st.integers(0, 255)})
    return st.one_of(body, body, body, top)


def st_tree():
    return st.one_of(dag.st_ord_dag(max_nodes=14, max_len=64, min_nodes=3), dag.st_ord_dag(max_nodes=14, max_len=64, min_nodes=2),
                     dag.st_exotic_dag(max_nodes=12, max_len=48))


def st_prune():
    return st.one_of(st.lists(st.integers(1, 63), min_size=1, max_size=6), st.lists(st.integers(1, 63), min_size=1, max_size=6),
                     st.lists(st.integers(0, 63), max_size=2))


ST_ALIKE = st.one_of(st.none(), st.none(), st.fixed_dictionaries({'t': st.integers(0, 31), 'a': st.integers(0, 255)}))


def strat_generic(tier):
    return st.fixed_dictionaries({'spec': st_tree(), 'prune': st_prune(), 'alike': ST_ALIKE,
                                  'route': st.sampled_from(['builder', 'boc']), 'mut': st.one_of(st.none(), st_mut())})


def strat_nested(tier):
    return st.fixed_dictionaries({'spec': st_tree(), 'prune': st_prune(), 'nest': st_nest(),
                                  'route': st.sampled_from(['builder', 'boc']), 'mut': st.one_of(st.none(), st.none(), st_mut())})


def strat_bag(tier):
    twin_root = st.fixed_dictionaries({'kind': st.just('root-ordinary'), 'a': st.integers(0, 255)})
    twin_below = st_body_mut(['unexotic', 'unexotic', 'exoticise'])
    other = st.one_of(st_body_mut(), st.fixed_dictionaries({'kind': st.sampled_from(['root-ordinary', 'root-is-child', 'root-hash-flip']),
                                                            'a': st.integers(0, 255)}))
    bag = st.fixed_dictionaries({'with': st.lists(st.one_of(twin_root, twin_below, other), min_size=1, max_size=3),
                                 'perm': st.integers(0, 15), 'prio': st.lists(st.integers(0, 7), max_size=6),
                                 'embed': st.sampled_from(['roots', 'roots', 'parent']), 'b': dag.st_bits(16)})
    return st.fixed_dictionaries({'spec': st_tree(), 'prune': st_prune(), 'alike': ST_ALIKE, 'bag': bag,
                                  'route': st.sampled_from(['builder', 'boc']),
                                  'mut': st.one_of(st.none(), st.none(), st.none(), st_body_mut())})


def classify_generic(case):
    T, Tp = _generic_parts(case)
    npr = sum(c.type == rc.PRUNED for c in rc.topo([Tp]))
    yield 'pruned-branches=' + ('0' if npr == 0 else '1' if npr == 1 else '2+')
    yield 'honest' if case.get('mut') is None else 'mutant:' + case['mut']['kind']
    yield 'route=' + case.get('route', 'builder')
    if any(c.special and c.type != rc.PRUNED for c in rc.topo([T])):
        yield 'tree-has-exotic-cells'
    if any(exotic_twin(c) is not None for c in rc.topo([T])):
        yield 'tree-has-an-ordinary-cell-with-the-layout-of-an-exotic-cell'
    child = Tp
    if case.get('nest'):
        O, path, Mi = _nested(case, T, Tp)
        child = Mi.refs[0]
        yield f'nest-layers={len(case["nest"])}'
        yield f'carried-proof-cell-level={Mi.level()} child-mask={child.mask():03b}'
    if case.get('mut') and case['mut']['kind'] in MUT_KINDS:
        X, label = mutate(child, case['mut'])
        yield 'applied:' + (label if X is not None else 'n/a ' + label)
        if X is not None and X.H(0) == T.H(0):
            yield 'mutant-still-valid'
    if case.get('bag'):
        P0 = rc.merkle_proof(Tp)
        yield 'bag:' + case['bag']['embed']
        kinds = set()
        for m in case['bag']['with']:
            fg = forge(P0, T.H(0), m)
            if fg is not None:
                kinds.add(m['kind'] if m['kind'] in TOP_KINDS else mutate(Tp, m)[1])
        for k in sorted(kinds):
            yield 'bag-companion:' + k
        if kinds & {'root-ordinary'} or any(k.startswith(('unexotic', 'exoticise')) for k in kinds):
            yield 'bag-holds-ordinary/exotic-twins'


def nt_generic(case):
    if case.get('mut') is not None:
        return True
    T, Tp = _generic_parts(case)
    return any(c.type == rc.PRUNED for c in rc.topo([Tp]))


# --------------------------------------------------------------------------------------------------
# block header proofs

def _state_child(S, mode, sel_idx):
    """how a state tree appears below the block's Merkle update (Merkle depth 1)"""
    if mode == 'pruned':
        return rc.pruned_branch_of(S, 1) if S.level() < 1 else S
    if mode == 'partial':
        nodes = rc.topo([S])
        sel = {nodes[i % len(nodes)].repr_hash() for i in sel_idx}
        return prune(S, sel, 1)
    return S


def build_block(case):
    old = dag.build_ref(case['old'])[-1]
    new = dag.build_ref(case['new'])[-1]
    mu = rc.merkle_update(_state_child(old, case['old_mode'], case['sel']), _state_child(new, case['new_mode'], case['sel']))
    parts = [dag.build_ref(case[k])[-1] for k in ('info', 'vf', 'extra')]
    refs = [parts[0], parts[1], mu, parts[2]][:case.get('nrefs', 4)]
    B = rc.RCell(dag.node_bits({'b': case['root_bits']}), refs, False)
    if B.level() != 0:
        raise HarnessError('block model has a non-zero level')
    return B, old, new


def _header_parts(case):
    B, old, new = build_block(case)
    nodes = rc.topo([B])
    sel = {nodes[i % len(nodes)].repr_hash() for i in case['prune']}
    sel.discard(B.refs[2].repr_hash())                     # keep the Merkle update itself: it is what the check reads
    Bp = prune(B, sel, 1)
    if case.get('nest'):
        # the block proof carried inside another proof: below it the outer proof prunes at level 2 (3); the block root and its
        # Merkle update (what the check reads) stay
        O, path = nest(rc.merkle_proof(Bp), case['nest'], keep_fn=lambda M: {M.refs[0].repr_hash(), M.refs[0].refs[2].repr_hash()})
        Bp = walk(O, path).refs[0]
        if Bp.H(0) != B.H(0) or Bp.refs[2].type != rc.MUPDATE:
            raise HarnessError('reference model: the carried block proof no longer commits to the block')
    return B, Bp, new


def forge_state(Bp, forged_hash):
    """the level-lift forgery: the new-state child of the Merkle update becomes a pruned branch with mask 0b11 that keeps
    the level-1 hash (so the Merkle update's and the block's hashes stay) and carries a forged level-0 hash"""
    mu = Bp.refs[2]
    ch = mu.refs[1]
    if ch.mask() & 2 or ch.level() > 1:
        return None
    m = ch.mask()
    if ch.type == rc.PRUNED and m == 1:
        _, hs, ds = pruned_fields(ch)
        lifted = rc.pruned_raw(3, [forged_hash, ch.H(1)], [(ds[0] + 1) % 1024, ch.D(1)])
    elif m == 0:
        lifted = rc.pruned_raw(3, [forged_hash, ch.H(1)], [7, ch.D(1)])
    else:
        return None
    mu2 = rc.RCell(mu.bits, [mu.refs[0], lifted], True)
    return rc.RCell(Bp.bits, list(Bp.refs[:2]) + [mu2] + list(Bp.refs[3:]), False)


def check_header(case):
    from pytoniq_core.proof.check_proof import check_block_header_proof, check_proof
    B, Bp, new = _header_parts(case)
    h = B.H(0)
    committed = B.refs[2].data_padded()[33:65]
    if committed != new.H(0):
        raise HarnessError('reference model: Merkle update does not commit to the new state hash')
    mut = case.get('mut')
    route = case.get('route', 'builder')
    if mut is None:
        ok, lc = to_lib(rc.merkle_proof(Bp), route)
        if not ok:
            return Fail(f'honest-proof/construction-raises/{exc_sig(lc)}', f'{lc!r}')
        ok, res = call(check_proof, lc, h)
        if not ok:
            return Fail('honest-proof-rejected/generic-on-block' + ('/nested' if case.get('nest') else ''),
                        f'{exc_sig(res)} {res!r}; block root mask {Bp.mask():03b}')
        ok, res = call(check_block_header_proof, lc[0], h, True)
        if not ok:
            return Fail('honest-proof-rejected/header', f'{exc_sig(res)} {res!r} modes={case["old_mode"]}/{case["new_mode"]} '
                        f'block root mask {Bp.mask():03b}')
        if res != committed:
            return Fail(f'header/wrong-state-hash/new-state-{case["new_mode"]}', f'returned {res.hex() if isinstance(res, bytes) else res!r}, '
                        f'block commits to {committed.hex()}')
        ok, res = call(check_block_header_proof, lc[0], h, False)
        if not ok:
            return Fail('honest-proof-rejected/header', f'store_state_hash=False: {exc_sig(res)} {res!r}')
        return None
    kind = mut['kind']
    expected = h
    X = Bp
    if kind == 'hash-random':
        expected = attacker_hash(mut['a'])
    elif kind == 'hash-flip':
        expected = bytes(x ^ (1 << (mut['a'] % 8) if i == (mut['a'] // 8) % 32 else 0) for i, x in enumerate(h))
    elif kind == 'forge-state':
        X = forge_state(Bp, attacker_hash(mut['a']))
        if X is None:
            return None
    else:
        X, label = mutate(Bp, mut)
        if X is None:
            return None
    ok, lc = to_lib(X, route)
    if not ok:
        return None
    ok, res = call(check_block_header_proof, lc, expected, True)
    if X.H(0) != expected:
        if ok:
            return Fail(f'forged-proof-accepted/header/{kind}', f'mutation {mut}: block root level-0 hash differs from the block hash')
        return None
    # the presented root still hashes to the block hash: either reject, or hand out the committed state hash
    if ok and res != committed:
        return Fail(f'header/forged-state-hash/{kind}', f'block hash kept, returned state hash {res.hex() if isinstance(res, bytes) else res!r} '
                    f'!= committed {committed.hex()} (mutation {mut})')
    return None


def strat_header(tier):
    small = dag.st_ord_dag(max_nodes=5, max_len=48)
    state = dag.st_ord_dag(max_nodes=8, max_len=64)
    mode = st.sampled_from(['pruned', 'pruned', 'full', 'partial'])
    return st.fixed_dictionaries({
        'info': small, 'vf': small, 'extra': small, 'old': state, 'new': state, 'old_mode': mode, 'new_mode': mode,
        'sel': st.lists(st.integers(0, 31), max_size=3), 'root_bits': dag.st_bits(64), 'prune': st.lists(st.integers(0, 63), max_size=5),
        'route': st.sampled_from(['builder', 'boc']), 'nest': st.one_of(st.none(), st.none(), st.none(), st_nest()),
        'mut': st.one_of(st.none(), st_mut(), st.fixed_dictionaries({'kind': st.just('forge-state'), 'a': st.integers(0, 255)}),
                         st.fixed_dictionaries({'kind': st.sampled_from(['hash-random', 'hash-flip']), 'a': st.integers(0, 255)}))
    }).filter(lambda c: not (c['mut'] and c['mut']['kind'] in ('root-ordinary', 'root-is-child', 'root-hash-flip')))


def classify_header(case):
    yield 'honest' if case.get('mut') is None else 'mutant:' + case['mut']['kind']
    yield f'states={case["old_mode"]}/{case["new_mode"]}'
    yield 'route=' + case.get('route', 'builder')
    if case.get('nest'):
        yield f'carried-in-an-outer-proof: block-root-mask={_header_parts(case)[1].mask():03b}'
    if case.get('mut') and case['mut']['kind'] in MUT_KINDS:
        B, Bp, new = _header_parts(case)
        X, label = mutate(Bp, case['mut'])
        yield 'applied:' + (label if X is not None else 'n/a ' + label)
        if X is not None and X.H(0) == B.H(0):
            yield 'mutant-kept-block-hash'


# --------------------------------------------------------------------------------------------------
# account proofs: hand-encoded ShardStateUnsplit (block.tlb) with a HashmapAugE 256 of ShardAccount

def cc(grams, extra=None):
    """CurrencyCollection = grams:Grams other:(HashmapE 32 (VarUInteger 32)); returns (bits, refs)"""
    if not extra:
        return rb.coins(grams) + '0', []
    mapping = {rb.uint(k, 32): (rb.var_uint(v, 5), []) for k, v in extra.items()}
    return rb.coins(grams) + '1', [refdict.build(mapping, 32)]


def add_extra(a, b):
    out = dict(a)
    for k, v in b.items():
        out[k] = out.get(k, 0) + v
    return out


def acc_extra(a):
    return {int(k): v for k, v in (a.get('extra') or [])}


def account_cell(wc, acc_id_hex, a):
    """account$1 addr:MsgAddressInt storage_stat:StorageInfo storage:AccountStorage
       storage_used$_ cells:(VarUInteger 7) bits:(VarUInteger 7) public_cells:(VarUInteger 7)   (the layout the library documents)
       storage_info$_ used:StorageUsed last_paid:uint32 due_payment:(Maybe Grams)
       account_storage$_ last_trans_lt:uint64 balance:CurrencyCollection state:AccountState"""
    bits = '1' + rb.addr_std(wc, bytes.fromhex(acc_id_hex))
    bits += rb.var_uint(a['cells'], 3) + rb.var_uint(a['bits'], 3) + rb.var_uint(0, 3)
    bits += rb.uint(a['last_paid'], 32) + '0'
    cb, refs = cc(a['balance'], acc_extra(a))
    bits += rb.uint(a['lt'], 64) + cb
    refs = list(refs)
    if a['state'] == 'uninit':
        bits += '00'
    elif a['state'] == 'frozen':
        bits += '01' + rb.uint(int.from_bytes(attacker_hash(('frozen', acc_id_hex)), 'big'), 256)
    else:                                              # account_active$1 _:StateInit  (no split_depth, no special, code, data, no library)
        bits += '1' + '00' + '1' + '1' + '0'
        refs += [rc.RCell(rb.uint(a['balance'] % 65536, 16) + '1' * (a['cells'] % 9), [rc.RCell('10101', [])]), rc.RCell(rb.uint(a['lt'] % 2 ** 32, 32), [])]
    return rc.RCell(bits, refs)


def build_state(case):
    accs = case['accounts']
    wc = case['wc']
    mapping = {}
    cells = {}
    for a in accs:
        key = rb.uint(int(a['id'], 16), 256)
        c = account_cell(wc, a['id'], a)
        cells[a['id']] = c
        mapping[key] = (rb.uint(int.from_bytes(attacker_hash(('lth', a['id'])), 'big'), 256) + rb.uint(a['lt'], 64), [c])
    bal = {rb.uint(int(a['id'], 16), 256): a['balance'] for a in accs}
    ext = {rb.uint(int(a['id'], 16), 256): acc_extra(a) for a in accs}

    def total(keys):
        e = {}
        for k in keys:
            e = add_extra(e, ext[k])
        return cc(sum(bal[k] for k in keys), e)

    def extra_of(keys, is_leaf, path):                  # depth_balance$_ split_depth:(#<= 30) balance:CurrencyCollection
        b, r = total(keys)                              # with extra currencies the dictionary reference PRECEDES the value's
        return rb.uint(0, 5) + b, r
    if accs:
        root = refdict.build(mapping, 256, extra_of=extra_of)
        b, r = total(list(bal))
        accounts = rc.RCell('1' + rb.uint(0, 5) + b, [root] + r)
    else:
        accounts = rc.RCell('0' + rb.uint(0, 5) + cc(0)[0], [])
    head = (rb.uint(0x9023afe2, 32) + rb.sint(case['global_id'], 32)
            + '00' + rb.uint(0, 6) + rb.sint(wc, 32) + rb.uint(0, 64)                     # shard_ident$00
            + rb.uint(case['seqno'], 32) + rb.uint(0, 32) + rb.uint(case['utime'], 32) + rb.uint(case['gen_lt'], 64)
            + rb.uint(max(0, case['seqno'] - 1), 32))
    out_q = rc.RCell(rb.uint(case['seqno'] % 251, 8), [rc.RCell('1', [])])
    tb, tr = total(list(bal)) if accs else cc(0)
    tail = rc.RCell(rb.uint(1, 64) + rb.uint(2, 64) + tb + cc(3)[0] + '0' + '0', tr)
    # field order: ... min_ref_mc_seqno out_msg_queue_info:^ before_split:(## 1) accounts:^ ^[...] custom:(Maybe ^McStateExtra)
    S = rc.RCell(head + '0' + '0', [out_q, accounts, tail], False)
    return S, cells


def on_path(S, acc_key_bits):
    """hashes of the cells on the way from the state root to the leaf of the account (those must stay unpruned)"""
    keep = {S.repr_hash(), S.refs[1].repr_hash()}
    if not S.refs[1].refs:
        return keep, None
    node = S.refs[1].refs[0]
    n = 256
    pos = 0
    while True:
        keep.add(node.repr_hash())
        label, _, _ = refdict.read_label(node.bits, 0, n)
        ln = len(label)
        if acc_key_bits[pos:pos + ln] != label:
            return keep, None                       # the key is not in the dictionary: path ends here
        pos += ln
        n -= ln
        if n == 0:
            return keep, node
        bit = acc_key_bits[pos]
        node = node.refs[int(bit)]
        pos += 1
        n -= 1


def build_account_case(case):
    S, acc_cells = build_state(case)
    accs = case['accounts']
    target = accs[case['target'] % len(accs)]
    key_bits = rb.uint(int(target['id'], 16), 256)
    keep, leaf = on_path(S, key_bits)
    if leaf is None:
        raise HarnessError('account path not found in the reference dictionary')
    acc = acc_cells[target['id']]
    everything = {c.repr_hash() for c in rc.topo([S])}
    sel = everything - keep
    if case['acc_in_proof'] == 'full':
        sel -= {c.repr_hash() for c in rc.topo([acc])}
    elif case['acc_in_proof'] == 'partial':
        sel -= {acc.repr_hash()}
    Sp = prune(S, sel, 1)
    old = rc.RCell(rb.uint(case['seqno'], 32), [rc.RCell('0', [])])
    mu = rc.merkle_update(rc.pruned_branch_of(old, 1), rc.pruned_branch_of(S, 1))
    B = rc.RCell(rb.uint(0x11ef55aa, 32) + rb.sint(case['global_id'], 32), [rc.RCell(rb.uint(case['seqno'], 32), []), rc.RCell('1', []), mu,
                                                                               rc.RCell('0101', [rc.RCell('', [])])], False)
    selB = {B.refs[0].repr_hash(), B.refs[1].repr_hash(), B.refs[3].repr_hash()} if case['prune_block'] else set()
    Bp = prune(B, selB, 1)
    return S, Sp, B, Bp, acc, acc_cells, target


WRAPS = ['proof-over-pruned', 'proof-over-pruned-other-depth', 'proof-over-partly-pruned-state', 'proof-over-state',
         'proof-over-proof-over-pruned-level-2', 'proof-naming-hash-over-proof-over-pruned', 'library-cell', 'update-over-two-pruned',
         'ordinary-twin-of-proof-over-pruned', 'ordinary-cell-with-the-hash', 'pruned-level-2', 'pruned-mask-3', 'pruned-mask-7',
         'proof-over-pruned-mask-3', 'proof-over-library-cell']


def exotic_wrap(acc, a):
    """a cell that names the committed state hash H = acc.H(0) without being the state (label: WRAPS[a % len(WRAPS)])"""
    H, D = acc.H(0), acc.D(0)
    w = WRAPS[a % len(WRAPS)]
    d2 = (D + 1 + a // len(WRAPS)) % 1024
    pb = rc.pruned_raw(1, [H], [D])
    named = rc.bytes_to_bits(bytes([rc.MPROOF]) + H + D.to_bytes(2, 'big'))     # data of a Merkle proof cell that names H
    if w == 'proof-over-pruned':
        return rc.merkle_proof(pb)
    if w == 'proof-over-pruned-other-depth':
        return rc.merkle_proof(rc.pruned_raw(1, [H], [d2]))
    if w == 'proof-over-partly-pruned-state':
        if not acc.refs:
            return rc.merkle_proof(pb)
        j = (a // len(WRAPS)) % len(acc.refs)
        return rc.merkle_proof(rc.RCell(acc.bits, [rc.pruned_branch_of(r, 1) if i == j or a % 2 else r for i, r in enumerate(acc.refs)], False))
    if w == 'proof-over-state':
        return rc.merkle_proof(acc)
    if w == 'proof-over-proof-over-pruned-level-2':
        return rc.merkle_proof(rc.merkle_proof(rc.pruned_branch_of(acc, 2)))
    if w == 'proof-naming-hash-over-proof-over-pruned':
        return rc.RCell(named, [rc.merkle_proof(pb)], True)
    if w == 'library-cell':
        return rc.library_ref(H)
    if w == 'update-over-two-pruned':
        return rc.merkle_update(pb, rc.pruned_raw(1, [H], [d2]) if a % 2 else pb)
    if w == 'ordinary-twin-of-proof-over-pruned':
        return rc.RCell(named, [pb], False)
    if w == 'ordinary-cell-with-the-hash':
        return rc.RCell(rc.bytes_to_bits(H), [], False)
    if w == 'pruned-level-2':
        return rc.pruned_raw(2, [H], [D])
    if w == 'pruned-mask-3':
        return rc.pruned_raw(3, [H, H], [D, D])
    if w == 'pruned-mask-7':
        return rc.pruned_raw(7, [H, H, H], [D, D, D])
    if w == 'proof-over-pruned-mask-3':
        return rc.merkle_proof(rc.pruned_raw(3, [H, attacker_hash(('wrap', a))], [D, d2]))
    if w == 'proof-over-library-cell':
        return rc.RCell(named, [rc.library_ref(H)], True)
    raise HarnessError(w)


def check_account(case):
    from pytoniq_core.proof.check_proof import check_account_proof
    from pytoniq_core.tl.block import BlockIdExt
    from pytoniq_core.boc.address import Address
    S, Sp, B, Bp, acc, acc_cells, target = build_account_case(case)
    wc = case['wc']
    mut = case.get('mut') or {'kind': 'none'}
    kind = mut['kind']
    roots = [rc.merkle_proof(Bp), rc.merkle_proof(Sp)]
    block_hash = B.H(0)
    addr_id = target['id']
    claimed = acc
    honest = False
    extra_cell = None
    if kind == 'none':
        honest = True
    elif kind == 'claimed-pruned':
        claimed = rc.pruned_branch_of(acc, 1 + mut['a'] % 3)
    elif kind == 'claimed-raw-pruned':                      # any pruned-branch cell that merely names the hash
        claimed = rc.pruned_raw(1, [acc.H(0)], [(acc.D(0) + mut['a']) % 1024])
    elif kind == 'claimed-partly-pruned':                   # the account cell with one child (code / data / the extra-currency
        if not acc.refs:                                     # dictionary) replaced by its pruned branch: its level-0 hash is the
            return None                                      # committed one, its own (representation) hash is not
        j = mut['a'] % len(acc.refs)
        lvl = 1 + (mut['a'] // 4) % 3
        claimed = rc.RCell(acc.bits, [rc.pruned_branch_of(r, lvl) if i == j else r for i, r in enumerate(acc.refs)], False)
        if claimed.repr_hash() == acc.repr_hash():
            raise HarnessError('partly pruned claim has the committed hash')
    elif kind == 'claimed-exotic-wrap':
        # the committed hash is public (the proof shows it): any exotic cell built from it ALONE - or from the true state - that
        # stores / proves / refers to that hash, while its own hash is another one
        claimed = exotic_wrap(acc, mut['a'])
        if claimed.repr_hash() == acc.repr_hash():
            raise HarnessError('wrapped claim has the committed hash')
    elif kind == 'claimed-other-account':
        others = [a for a in case['accounts'] if a['id'] != target['id']]
        if not others:
            return None
        claimed = acc_cells[others[mut['a'] % len(others)]['id']]
        if claimed.repr_hash() == acc.repr_hash():
            return None
    elif kind == 'claimed-bitflip':
        claimed = rc.RCell(flip(acc.bits, mut['a'] % len(acc.bits)), acc.refs, False)
    elif kind == 'claimed-child-changed':
        if not acc.refs:
            return None
        claimed = rc.RCell(acc.bits, [rc.RCell('111', [])] + list(acc.refs[1:]), False)
    elif kind == 'other-address':
        others = [a for a in case['accounts'] if a['id'] != target['id']]
        addr_id = others[mut['a'] % len(others)]['id'] if others and mut['a'] % 2 else attacker_hash(('addr', mut['a'])).hex()
        if addr_id == target['id']:
            return None
    elif kind == 'other-block-hash':
        block_hash = attacker_hash(('blk', mut['a'])) if mut['a'] % 2 else bytes([block_hash[0] ^ 1]) + block_hash[1:]
    elif kind == 'other-state':                              # proof of a state the block does not commit to
        c2 = dict(case)
        c2['accounts'] = [dict(a, balance=a['balance'] + 1) if a['id'] == target['id'] else a for a in case['accounts']]
        S2, Sp2, _, _, acc2, _, _ = build_account_case(c2)
        roots = [roots[0], rc.merkle_proof(Sp2)]
        claimed = acc2
    elif kind == 'forged-header':                            # forged state + level-lifted new-state hash below the Merkle update
        c2 = dict(case)
        c2['accounts'] = [dict(a, balance=a['balance'] + 10 ** 18) if a['id'] == target['id'] else a for a in case['accounts']]
        S2, Sp2, _, _, acc2, _, _ = build_account_case(c2)
        Bf = forge_state(Bp, S2.H(0))
        if Bf is None:
            raise HarnessError('forge_state not applicable to the block model')
        Pf = rc.merkle_proof(Bp)
        roots = [rc.RCell(Pf.bits, [Bf], True), rc.merkle_proof(Sp2)]
        claimed = acc2
    elif kind in ('path-pruned-claim-empty', 'path-pruned-claim-none'):
        # the state proof reveals ANOTHER account (or none): the branch of the asked account is pruned, so the proof says
        # nothing about it; claiming that it does not exist (empty cell / no state) must not be accepted
        others = [a for a in case['accounts'] if a['id'] != target['id']]
        c2 = dict(case)
        if others:
            c2['target'] = next(i for i, a in enumerate(case['accounts']) if a['id'] == others[mut['a'] % len(others)]['id'])
            _, Sp2, _, _, _, _, t2 = build_account_case(c2)
            if t2['id'] == target['id']:
                raise HarnessError('other account not selected')
        else:
            Sp2 = prune(S, {c.repr_hash() for c in rc.topo([S])} - {S.repr_hash(), S.refs[1].repr_hash()}, 1)
        roots = [roots[0], rc.merkle_proof(Sp2)]
        claimed = rc.RCell('', [], False) if kind.endswith('empty') else None
    elif kind == 'proof-root-ordinary':
        # one of the two roots is the ORDINARY twin of the proof cell (same data, same child) - "a cell that is not a Merkle proof";
        # optionally the bag still holds the real proof cell as a cell no root reaches, right after its twin or as cell 0
        which = mut['a'] % 2
        orphan = [None, 'after-twin', 'first'][(mut['a'] // 2) % 3]
        real = roots[which]
        roots[which] = rc.RCell(real.bits, real.refs, False)
        if orphan:
            extra_cell = (real, orphan)
    elif kind == 'proof-cell-mutation':
        # any change to the data or structure of a cell BELOW one of the two proof roots (the root keeps its data: what a forger
        # sends); with stored hashes in the bag (seqno % 3 == 0) the altered cells carry the honest cells' stored values
        which = mut['a'] % 2
        X, label = mutate(roots[which].refs[0], mut['m'])
        if X is None or X.H(0) == roots[which].refs[0].H(0):
            return None                                      # not applicable / kept the commitment: not judged
        roots[which] = rc.RCell(roots[which].bits, [X], True)
    elif kind == 'proof-root-hash-flip':                     # a bit of the hash stored in one of the two proof cells
        which = mut['a'] % 2
        roots[which] = rc.RCell(flip(roots[which].bits, 8 + (mut['a'] // 2) % 256), roots[which].refs, True)
    elif kind == 'one-root':
        roots = roots[:1]
    elif kind == 'three-roots':
        roots = roots + [rc.merkle_proof(acc)]
    elif kind == 'swapped-roots':
        roots = roots[::-1]
    else:
        raise HarnessError(kind)
    order_m = rc.topo(roots)
    if extra_cell is not None:
        at = 0 if extra_cell[1] == 'first' else 1 + next(i for i, c in enumerate(order_m) if c.repr_hash() == roots[mut['a'] % 2].repr_hash())
        order_m = order_m[:at] + [extra_cell[0]] + order_m[at:]
    boc = refboc.encode(roots, has_crc=bool(case.get('crc', True)), has_idx=bool(case.get('idx', False)), order=order_m)
    if case['seqno'] % 3 == 0:
        # the bag stores hashes and depths with every cell. Honest proof: the genuine ones. Forged proof: the values the HONEST
        # proof's cells have at the same positions (what a forger would copy) - stored values are never what is checked
        honest_roots = [rc.merkle_proof(Bp), rc.merkle_proof(Sp)]
        order_h = rc.topo(honest_roots)
        donors = {i: order_h[i] for i in range(min(len(order_m), len(order_h)))} if not honest else {}
        boc = refboc.encode(roots, has_crc=bool(case.get('crc', True)), has_idx=bool(case.get('idx', False)),
                            with_hashes=set(range(len(order_m))), stored_from=donors, order=order_m)
    blk = BlockIdExt(wc, -2 ** 63, case['seqno'], block_hash, attacker_hash('file'))
    address = Address((wc, bytes.fromhex(addr_id)))
    ok, claimed_lib = (True, None) if claimed is None else call(dag.lib_from_rcell, claimed, 'builder')
    if not ok:
        if honest:
            return Fail(f'honest-proof/construction-raises/{exc_sig(claimed_lib)}', repr(claimed_lib))
        return None
    for want_descr in (False, True):
        ok, res = call(check_account_proof, boc, blk, address, claimed_lib, want_descr)
        if honest:
            if not ok:
                return Fail(f'honest-proof-rejected/account/{case["acc_in_proof"]}', f'{exc_sig(res)} {res!r}; {len(case["accounts"])} accounts')
            if want_descr:
                lt = getattr(res, 'last_trans_lt', None)
                if lt != target['lt']:
                    return Fail('account/descr-differs', f'last_trans_lt {lt!r} != {target["lt"]}')
                lth = getattr(res, 'last_trans_hash', None)
                if lth != attacker_hash(('lth', target['id'])):
                    return Fail('account/descr-differs/last_trans_hash', f'last_trans_hash {lth!r} is not the one in the leaf of {target["id"]}')
        elif ok:
            return Fail(f'forged-proof-accepted/account/{kind}', f'mutation {mut} accepted (return_account_descr={want_descr})')
    return None


ACC_MUTS = ['claimed-exotic-wrap', 'claimed-exotic-wrap', 'claimed-exotic-wrap', 'claimed-partly-pruned', 'claimed-partly-pruned', 'path-pruned-claim-empty', 'path-pruned-claim-empty', 'path-pruned-claim-none', 'claimed-pruned', 'claimed-pruned', 'claimed-raw-pruned', 'claimed-other-account', 'claimed-bitflip', 'claimed-child-changed',
            'other-address', 'other-block-hash', 'other-state', 'forged-header', 'forged-header', 'one-root', 'three-roots', 'swapped-roots',
            'proof-root-ordinary', 'proof-root-ordinary', 'proof-root-hash-flip']


@st.composite
def _acc_case(draw):
    n = draw(st.integers(1, 6))
    shape = draw(st.sampled_from(['random', 'shared-prefix', 'adjacent', 'one-bit', 'one-bit', 'siblings']))
    ids = set()
    base = draw(st.one_of(st.integers(0, 2 ** 256 - 1), st.integers(0, 2 ** 256 - 1), st.sampled_from([0, 1, 2 ** 256 - 1, 2 ** 256 - 2, 2 ** 255])))
    if shape == 'one-bit':
        # designed common prefixes: the other ids differ from `base` in exactly ONE bit (any position, the first and the last
        # preferred), so the dictionary forks exactly there and the leaf labels have every length 0..255
        ids.add('%064x' % base)
        for k in draw(st.lists(st.one_of(st.sampled_from([0, 0, 1, 2, 7, 8, 253, 254, 255, 255]), st.integers(0, 255)), min_size=n - 1, max_size=n - 1,
                               unique=True)):
            ids.add('%064x' % (base ^ (1 << k)))
    elif shape == 'siblings':
        # the proven account and its sibling differ only in the LOWEST address bit (leaf directly below the last fork, empty
        # label); further accounts next to them (last two / three bits) or anywhere
        ids.add('%064x' % base)
        ids.add('%064x' % (base ^ 1))
        for j in range(n - 2):
            ids.add('%064x' % draw(st.one_of(st.sampled_from([base ^ 2, base ^ 3, base ^ 4, base ^ 7, base ^ (1 << 255), base ^ (1 << 255) ^ 1]),
                                             st.integers(0, 2 ** 256 - 1))))
        n = len(ids)
    while len(ids) < n:
        if shape == 'random':
            v = draw(st.integers(0, 2 ** 256 - 1))
        elif shape == 'shared-prefix':
            v = (base >> 16 << 16) | draw(st.integers(0, 65535))
        else:
            v = (base + len(ids) * 2) % 2 ** 256
        ids.add('%064x' % v)
    accs = []
    for i in sorted(ids):
        accs.append({'id': i, 'balance': draw(st.sampled_from([0, 1, 10 ** 9, 2 ** 64, 2 ** 100 - 1])) + draw(st.integers(0, 1000)),
                     'lt': draw(st.one_of(st.integers(0, 2 ** 48), st.sampled_from([2 ** 63, 2 ** 64 - 1]))),
                     'state': draw(st.sampled_from(['uninit', 'active', 'active', 'frozen'])), 'cells': draw(st.integers(0, 2 ** 20)),
                     'bits': draw(st.integers(0, 2 ** 30)), 'last_paid': draw(st.integers(0, 2 ** 32 - 1)),
                     'extra': draw(st.one_of(st.just([]), st.just([]), st.lists(st.tuples(st.integers(0, 2 ** 32 - 1), st.integers(1, 2 ** 64)).map(list),
                                                                                  min_size=1, max_size=2, unique_by=lambda t: t[0])))})
    mut = draw(st.one_of(st.none(), st.none(), st.fixed_dictionaries({'kind': st.sampled_from(ACC_MUTS), 'a': st.integers(0, 255)}),
                         st.fixed_dictionaries({'kind': st.sampled_from(ACC_MUTS), 'a': st.integers(0, 255)}),
                         st.fixed_dictionaries({'kind': st.just('proof-cell-mutation'), 'a': st.integers(0, 255), 'm': st_body_mut()})))
    return {'accounts': accs, 'target': draw(st.integers(0, 5)), 'wc': draw(st.sampled_from([0, -1, 0, 5, -128, 127])),
            'global_id': draw(st.sampled_from([-239, -3, 0, 2 ** 31 - 1])), 'seqno': draw(st.integers(1, 2 ** 31 - 1)),
            'utime': draw(st.integers(0, 2 ** 32 - 1)), 'gen_lt': draw(st.integers(0, 2 ** 64 - 1)),
            'acc_in_proof': draw(st.sampled_from(['pruned', 'pruned', 'partial', 'full'])), 'prune_block': draw(st.booleans()),
            'crc': draw(st.booleans()), 'idx': draw(st.booleans()), 'mut': mut}


def strat_account(tier):
    return _acc_case()


def classify_account(case):
    yield 'honest' if case.get('mut') is None else 'mutant:' + case['mut']['kind']
    if case.get('mut') and case['mut']['kind'] == 'proof-cell-mutation':
        yield f'proof-cell-mutation: {"block" if case["mut"]["a"] % 2 == 0 else "state"} proof, {case["mut"]["m"]["kind"]}' + (
            ', bag stores (the honest) hashes' if case['seqno'] % 3 == 0 else '')
    if case.get('mut') and case['mut']['kind'] == 'claimed-exotic-wrap':
        yield 'claimed-state-wrapped: ' + WRAPS[case['mut']['a'] % len(WRAPS)]
    yield f'accounts={len(case["accounts"])}'
    yield 'account-in-proof=' + case['acc_in_proof']
    t = case['accounts'][case['target'] % len(case['accounts'])]
    for a in case['accounts']:
        x = int(a['id'], 16) ^ int(t['id'], 16)
        if x and x & (x - 1) == 0:
            k = x.bit_length() - 1
            yield 'another-account-differs-from-the-proven-one-in-exactly-one-bit: ' + (
                'the lowest (sibling below the last fork)' if k == 0 else 'the highest (fork at the root)' if k == 255 else
                'bit 1..7' if k < 8 else 'bit 248..254' if k >= 248 else 'bit 8..247')
    yield 'state=' + t['state']
    if t.get('extra'):
        yield 'target-has-extra-currencies (dictionary reference precedes the account reference in its leaf)'


def nt_any(case):
    return True


def enum_fork_grid(tier):
    """designed account sets: two accounts whose ids differ in exactly one bit, for EVERY bit position 0..255 (random common part;
    for the first / last positions also all-zero and all-one common parts, and a third account that shares all but the last two
    bits), each of the two proven in turn: honest, the sibling's address with this account's state, the sibling's state with this
    address, the state named only by an exotic cell"""
    def acct(v, j):
        return {'id': '%064x' % v, 'balance': [10 ** 9, 1, 0, 2 ** 64 + 5, 12345678][j % 5] + (j // 5) % 3, 'lt': 1000 + 7 * j,
                'state': ['uninit', 'active', 'frozen'][j % 3], 'cells': j % 300, 'bits': 8 * j, 'last_paid': 1700000000 + j,
                'extra': [[7, 1 + j]] if j % 4 == 3 else []}
    grid = []
    for k in range(256):
        bases = [int.from_bytes(attacker_hash(('grid', k)), 'big')]
        if k in (0, 1, 254, 255):
            bases += [0, 2 ** 256 - 1]
        for bi, base in enumerate(bases):
            ids = {base, base ^ (1 << k)}
            if (k + bi) % 4 == 1:
                ids.add(base ^ 2 if k == 0 else base ^ 1)
            grid.append((k, bi, sorted(ids), base))
    j = w = 0
    for k, bi, ids, base in grid:
        for tid in (base, base ^ (1 << k)):
            w += 1                                          # the wraps in turn
            muts = [None, {'kind': 'other-address', 'a': 1 + 2 * ids.index(tid)}, {'kind': 'claimed-other-account', 'a': ids.index(tid)},
                    {'kind': 'claimed-exotic-wrap', 'a': w}]
            for mut in (muts if tier != 'quick' or k < 8 or k >= 248 or k % 16 == 0 else muts[:1] + [muts[1 + j % 3]]):
                j += 1
                yield {'accounts': [acct(v, j + i) for i, v in enumerate(ids)], 'target': ids.index(tid), 'wc': [0, -1][j % 2], 'global_id': -239,
                       'seqno': 100 + j, 'utime': 1700000000, 'gen_lt': 10 ** 12 + j, 'acc_in_proof': ['pruned', 'partial', 'full'][j % 3],
                       'prune_block': bool(j % 2), 'crc': True, 'idx': False, 'mut': mut}


SUBCHECKS = [
    Sub('generic-proof', check_generic, strategy=strat_generic, classify=classify_generic, nontrivial=nt_generic,
        n=(3000, 80000), shards=(16, 48), note='check_proof: honest proofs accepted, invalid mutants rejected'),
    Sub('nested-proof', check_generic, strategy=strat_nested, classify=classify_generic, nontrivial=nt_any,
        n=(800, 20000), shards=(16, 48), note='check_proof on a proof carried inside another proof (proof cell of level >= 1), taken out of '
        'the outer proof and stand-alone; its mutants'),
    Sub('bag-of-proofs', check_generic, strategy=strat_bag, classify=classify_generic, nontrivial=nt_any,
        n=(800, 20000), shards=(16, 48), note='honest proof and variants of it (incl. ordinary/exotic twins) in one bag: each judged by itself'),
    Sub('block-header-proof', check_header, strategy=strat_header, classify=classify_header, nontrivial=nt_any,
        n=(2000, 50000), shards=(16, 48), note='check_block_header_proof incl. extracted state hash and level-lift forgeries'),
    Sub('account-proof', check_account, strategy=strat_account, classify=classify_account, nontrivial=nt_any,
        n=(1500, 40000), shards=(16, 48), note='check_account_proof on hand-encoded shard states'),
    Sub('account-proof-fork-grid', check_account, enum=enum_fork_grid, exhaustive=True, classify=classify_account, nontrivial=nt_any,
        shards=(16, 16), note='check_account_proof: two accounts that differ in exactly one address bit, every bit position, each proven'),
]


# the same generated cases, several at a time, checked by threads that run at the same time (core.run_overlapping): per-call state
# kept in a place two calls share shows only there
SUBCHECKS.append(__import__('harness.core', fromlist=['overlapped']).overlapped(next(s for s in SUBCHECKS if s.name == 'generic-proof'), k=3, n=(40, 1500)))
