"""
C03 — BoC serialisation round-trips for every DAG and option set.
Oracle: root.to_boc(options) parsed back has identical hash AND identical structure (bits, type, refs, recursively)
as the independent reference tree the cells were built from; bytes / hex (lower, upper) / base64 forms and the
Cell / Slice / Builder entry points all give equal results.
Not asserted: cache bits without an index (not one of the 6 valid option sets). Builder entry point only for
ordinary roots (exotic roots are refused by design: 'cant convert exotic cell to builder').
"""
import base64
from hypothesis import strategies as st
from harness.core import Sub, Fail, call, exc_sig, look
from harness.gen import dag, boccases
from harness.ref import refcell as rc

RULE = ('case = DAG spec (ordinary or exotic, bottom-up, with sharing) serialised under each of the 6 valid option sets '
        '(idx, crc, idx+crc, idx+cache, idx+cache+crc, none), parsed through 3 entry points x 4 input forms. boundary sub-check: '
        '255/256/257-cell DAGs, payloads of 254..257 bytes, depth-1023 chain and ladder (thorough: 65535..65537 cells / bytes). '
        'non-trivial = more than one cell and (sharing or non-default options — every case exercises all option sets, so: more '
        'than one cell); distinct = distinct spec')
ASSUMPTIONS = ['harness/ref/refcell.py for the structure/hash the parse must reproduce', 'python base64 / bytes.hex']


def check(case):
    from pytoniq_core.boc.cell import Cell
    from pytoniq_core.boc.slice import Slice
    from pytoniq_core.boc.builder import Builder
    cells = dag.build_ref(case['spec'])
    ok, lib = call(dag.lib_from_ref, cells, 'builder')
    if not ok:
        return Fail('construction-raises', f'{exc_sig(lib)}: {lib!r}')
    root_r, root = cells[-1], lib[-1]
    light = case.get('light', False)
    if not light:
        dag.disturb(lib)            # history: inner nodes serialised on their own, builders/slices derived and used
    minimal = case.get('minimal', False)    # 65 536-cell bags in the quick tier: one option set, bytes form, Cell entry point
    for (idx, crc, cache) in ([tuple(o) for o in case.get('optsets', [(1, 1, 1)])] if minimal else boccases.OPTSETS):
        tag = f'idx{idx}crc{crc}cache{cache}'
        if not light:
            look(root)              # the caller printed the tree (once more before every serialisation): it is what it was
        ok, boc = call(root.to_boc, bool(idx), bool(crc), bool(cache))
        if not ok:
            return Fail(f'to_boc-raises/{type(boc).__name__}', f'{tag}: {exc_sig(boc)}: {boc!r}')
        if not isinstance(boc, (bytes, bytearray)):
            return Fail('to_boc/not-bytes', tag)
        forms = [('bytes', bytes(boc))]
        if not minimal and (not light or (idx, crc, cache) == (1, 1, 0)):
            forms += [('hex', boc.hex()), ('HEX', boc.hex().upper()), ('base64', base64.b64encode(boc).decode()),
                      # the same three forms held in subclasses of bytes / str (a transport layer's own types)
                      ('bytes-subclass', dag.BocBytes(boc)), ('hex-str-subclass', dag.BocText(boc.hex())),
                      ('base64-str-subclass', dag.BocText(base64.b64encode(boc).decode()))]
        first = None
        for fname, data in forms:
            ok, parsed = call(Cell.one_from_boc, data)
            if not ok:
                return Fail(f'parse-raises/{fname}/{type(parsed).__name__}', f'{tag}: {exc_sig(parsed)}: {parsed!r}')
            if parsed.hash != root_r.repr_hash():
                return Fail(f'roundtrip/hash-differs/{fname}', f'{tag}: {parsed.hash.hex()} vs {root_r.repr_hash().hex()}')
            diff = rc.structurally_equal_lib(root_r, parsed)
            if diff:
                return Fail(f'roundtrip/structure-differs/{fname}', f'{tag}: {diff}')
            if fname == 'bytes':
                first = parsed
                ok, lst = call(Cell.from_boc, data)
                if not ok or len(lst) != 1 or lst[0].hash != parsed.hash or rc.structurally_equal_lib(root_r, lst[0]):
                    return Fail('entry/Cell.from_boc-differs', f'{tag}: {lst!r}')
            if not minimal:
                # the less travelled entry points: Builder.from_boc (a list of cells), Boc(...).deserialize(), Boc.from_hex / from_base64
                from pytoniq_core.boc.deserialize import Boc
                alts = [('Builder.from_boc', lambda: Builder.from_boc(data)), ('Boc.deserialize', lambda: Boc(data).deserialize())]
                if fname in ('hex', 'HEX', 'hex-str-subclass'):
                    alts.append(('Boc.from_hex', lambda: Boc.from_hex(data).deserialize()))
                if fname in ('base64', 'base64-str-subclass'):
                    alts.append(('Boc.from_base64', lambda: Boc.from_base64(data).deserialize()))
                for ename, thunk in alts:
                    ok, lst = call(thunk)
                    if not ok:
                        return Fail(f'entry/{ename}-raises/{fname}', f'{tag}: {exc_sig(lst)}: {lst!r}')
                    if not isinstance(lst, list) or len(lst) != 1 or getattr(lst[0], 'hash', None) != parsed.hash or \
                            rc.structurally_equal_lib(root_r, lst[0]):
                        return Fail(f'entry/{ename}-differs/{fname}', f'{tag}: {lst!r}'[:300])
            if minimal:
                continue
            # ... into an application's own Cell subclass whose constructor parses another bag first (a parse inside a parse)
            App = dag.cell_subclass(dag.TEMPLATE_BAG if fname != 'hex' else None)
            ok, sub = call(App.one_from_boc, data)
            if not ok:
                return Fail(f'entry/Cell-subclass.one_from_boc-raises/{fname}', f'{tag}: {exc_sig(sub)}: {sub!r}')
            if sub.hash != parsed.hash or rc.structurally_equal_lib(root_r, sub):
                return Fail(f'entry/Cell-subclass.one_from_boc-differs/{fname}', f'{tag}: {rc.structurally_equal_lib(root_r, sub)}')
            # other entry points
            ok, s = call(lambda: Slice.one_from_boc(data).to_cell())
            if not ok:
                return Fail(f'entry/Slice.one_from_boc-raises/{fname}', f'{tag}: {exc_sig(s)}: {s!r}')
            if s.hash != parsed.hash or rc.structurally_equal_lib(root_r, s):
                return Fail(f'entry/Slice.one_from_boc-differs/{fname}', tag)
            if not root_r.special:
                ok, b = call(lambda: Builder.one_from_boc(data).end_cell())
                if not ok:
                    return Fail(f'entry/Builder.one_from_boc-raises/{fname}', f'{tag}: {exc_sig(b)}: {b!r}')
                if b.hash != parsed.hash or rc.structurally_equal_lib(root_r, b):
                    return Fail(f'entry/Builder.one_from_boc-differs/{fname}', tag)
        # serialising the parsed tree again gives the same bytes (serialisation is a function of the DAG)
        ok, again = call(first.to_boc, bool(idx), bool(crc), bool(cache))
        if not ok or again != boc:
            return Fail('roundtrip/reserialised-bytes-differ', tag)
    return None


def enum_boundary(tier):
    for name, spec in boccases.boundary_specs(tier):
        if len(spec) > 60000 and name.startswith('payload='):      # multi-megabyte bags: two option sets, bytes form only
            yield {'spec': spec, 'light': True, 'minimal': True, 'optsets': [[1, 1, 1], [1, 0, 0]], 'name': name + '/two-option-sets'}
            continue
        yield {'spec': spec, 'light': True, 'name': name}
    for total in (65537, 131073, 1 << 20, 1000000, 100000) + ((3 * (1 << 18), (1 << 20) + 1, 1 << 21) if tier != 'quick' else ()):
        # bags whose length before the checksum is exactly a block boundary (+1) of anything that works block by block
        yield {'spec': boccases.bag_of_total_length(total), 'light': True, 'minimal': True, 'optsets': [[0, 1, 0], [1, 1, 1]], 'name': 'bag-length=%d' % total}
    if tier == 'quick':
        for n in (65535, 65536):       # the 2-byte / 3-byte reference-width boundary (thorough: full matrix, 65 535..65 537)
            yield {'spec': boccases.heap_spec(n), 'light': True, 'minimal': True, 'name': 'cells=%d/one-option-set' % n}


def strat(tier):
    return st.fixed_dictionaries({'spec': boccases.st_spec(tier)})


def classify(case):
    kinds, sharing = boccases.spec_stats(case['spec'])
    n = len(case['spec'])
    yield 'nodes=' + ('1' if n == 1 else '2-8' if n <= 8 else '9-32' if n <= 32 else '33-254' if n < 255 else '255+')
    yield 'sharing' if sharing else 'tree'
    yield 'exotic' if kinds - {'o'} else 'ordinary'
    yield 'root-exotic' if case['spec'][-1]['k'] != 'o' else 'root-ordinary'
    if 'name' in case:
        yield case['name']


def nt(case):
    return len(case['spec']) > 1


SUBCHECKS = [
    Sub('boundary-sizes', check, enum=enum_boundary, classify=classify, nontrivial=nt, shards=(16, 24), case_cpu_s=600,
        note='exact cell-count / payload-size boundaries of the size and offset fields; depth-1023 chain and ladder'),
    Sub('dags-x-6-optionsets', check, strategy=strat, classify=classify, nontrivial=nt, n=(800, 15000), shards=(16, 32)),
]

# the same generated cases, several at a time, checked by threads that run at the same time (core.run_overlapping): per-call state
# kept in a place two calls share shows only there
SUBCHECKS.append(__import__('harness.core', fromlist=['overlapped']).overlapped(next(s for s in SUBCHECKS if s.name == 'dags-x-6-optionsets'), k=2, n=(20, 600)))
