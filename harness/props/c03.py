"""
C03 — BoC serialisation round-trips for every DAG and option set.
Oracle: root.to_boc(options) parsed back has identical hash AND identical structure (bits, type, refs, recursively)
as the independent reference tree the cells were built from; bytes / hex (lower, upper) / base64 forms and the
Cell / Slice / Builder entry points all give equal results.
temporaries sub-checks: 2-3 bags of the SAME length and other content (same tree shape and cell sizes, 1 cell .. 8000 cells / 1 MB;
texts of >= 2^20 characters) follow each other; every library tree is built, serialised and dropped before the next is built, and
every input object (private bytes copy, hex / HEX / base64 text) is dropped before the next is made, so that the next object gets
the address of the dead one (counted in classes temporaries:*); one living object may go through two entry points. Oracle as above:
each parse yields the root of the reference tree of the bag handed in.
Not asserted: cache bits without an index (not one of the 6 valid option sets). Builder entry point only for
ordinary roots (exotic roots are refused by design: 'cant convert exotic cell to builder').
"""
import base64
from hypothesis import strategies as st
from harness.core import Sub, Fail, call, exc_sig, look
from harness.gen import dag, boccases
from harness.ref import refcell as rc

RULE = ('case = DAG spec (ordinary or exotic, bottom-up, with sharing) serialised under each of the 6 valid option sets '
        '(idx, crc, idx+crc, idx+cache, idx+cache+crc, none), parsed through 3 entry points x 4 input forms. boundary sub-check: '
        '255/256/257-cell DAGs, payloads of 254..257 bytes, depth-1023 chain and ladder (thorough: 65535..65537 cells / bytes). '
        'non-trivial = more than one cell and (sharing or non-default options — every case exercises all option sets, so: more '
        'than one cell); distinct = distinct spec. temporaries: case = (cell count, cell sizes, arity, 2-3 content tags, option set, '
        'program of steps (bag, input form, 1-2 entry points)); grid of bag lengths 0.5 KB .. 1 MB x 4 forms plus random programs over '
        'bags of 1..120 cells; every input object and every tree dies before the next of the same size is made')
ASSUMPTIONS = ['harness/ref/refcell.py for the structure/hash the parse must reproduce', 'python base64 / bytes.hex']


def check(case):
    from pytoniq_core.boc.cell import Cell
    from pytoniq_core.boc.slice import Slice
    from pytoniq_core.boc.builder import Builder
    cells = dag.build_ref(case['spec'])
    ok, lib = call(dag.lib_from_ref, cells, 'builder')
    if not ok:
        return Fail('construction-raises', f'{exc_sig(lib)}: {lib!r}')
    root_r, root = cells[-1], lib[-1]
    light = case.get('light', False)
    if not light:
        dag.disturb(lib)            # history: inner nodes serialised on their own, builders/slices derived and used
    minimal = case.get('minimal', False)    # 65 536-cell bags in the quick tier: one option set, bytes form, Cell entry point
    for (idx, crc, cache) in ([tuple(o) for o in case.get('optsets', [(1, 1, 1)])] if minimal else boccases.OPTSETS):
        tag = f'idx{idx}crc{crc}cache{cache}'
        if not light:
            look(root)              # the caller printed the tree (once more before every serialisation): it is what it was
        ok, boc = call(root.to_boc, bool(idx), bool(crc), bool(cache))
        if not ok:
            return Fail(f'to_boc-raises/{type(boc).__name__}', f'{tag}: {exc_sig(boc)}: {boc!r}')
        if not isinstance(boc, (bytes, bytearray)):
            return Fail('to_boc/not-bytes', tag)
        forms = [('bytes', bytes(boc))]
        if not minimal and (not light or (idx, crc, cache) == (1, 1, 0)):
            forms += [('hex', boc.hex()), ('HEX', boc.hex().upper()), ('base64', base64.b64encode(boc).decode()),
                      # the same three forms held in subclasses of bytes / str (a transport layer's own types)
                      ('bytes-subclass', dag.BocBytes(boc)), ('hex-str-subclass', dag.BocText(boc.hex())),
                      ('base64-str-subclass', dag.BocText(base64.b64encode(boc).decode()))]
        first = None
        for fname, data in forms:
            ok, parsed = call(Cell.one_from_boc, data)
            if not ok:
                return Fail(f'parse-raises/{fname}/{type(parsed).__name__}', f'{tag}: {exc_sig(parsed)}: {parsed!r}')
            if parsed.hash != root_r.repr_hash():
                return Fail(f'roundtrip/hash-differs/{fname}', f'{tag}: {parsed.hash.hex()} vs {root_r.repr_hash().hex()}')
            diff = rc.structurally_equal_lib(root_r, parsed)
            if diff:
                return Fail(f'roundtrip/structure-differs/{fname}', f'{tag}: {diff}')
            if fname == 'bytes':
                first = parsed
                ok, lst = call(Cell.from_boc, data)
                if not ok or len(lst) != 1 or lst[0].hash != parsed.hash or rc.structurally_equal_lib(root_r, lst[0]):
                    return Fail('entry/Cell.from_boc-differs', f'{tag}: {lst!r}')
                # the list that was returned is the caller's: emptied, refilled, reversed - the same bytes parse to the same root again,
                # through every list-returning entry point and through the single-root ones
                lst.pop()
                lst.extend([Cell.empty(), parsed])
                ok, lst_b = call(Builder.from_boc, data)
                if ok and isinstance(lst_b, list):
                    lst_b.clear()
                for ename, thunk in (('Cell.from_boc', lambda: Cell.from_boc(data)[0]), ('Cell.one_from_boc', lambda: Cell.one_from_boc(data)),
                                     ('Builder.from_boc', lambda: Builder.from_boc(data)[0]),
                                     ('Slice.one_from_boc', lambda: Slice.one_from_boc(data).to_cell())):
                    ok, again = call(thunk)
                    if not ok or getattr(again, 'hash', None) != parsed.hash or rc.structurally_equal_lib(root_r, again):
                        return Fail(f'entry/{ename}-differs/after-the-caller-edited-an-earlier-result-list',
                                    f'{tag}: {exc_sig(again) if not ok else ""} {again!r}'[:300])
            if not minimal:
                # the less travelled entry points: Builder.from_boc (a list of cells), Boc(...).deserialize(), Boc.from_hex / from_base64
                from pytoniq_core.boc.deserialize import Boc
                alts = [('Builder.from_boc', lambda: Builder.from_boc(data)), ('Boc.deserialize', lambda: Boc(data).deserialize())]
                if fname in ('hex', 'HEX', 'hex-str-subclass'):
                    alts.append(('Boc.from_hex', lambda: Boc.from_hex(data).deserialize()))
                if fname in ('base64', 'base64-str-subclass'):
                    alts.append(('Boc.from_base64', lambda: Boc.from_base64(data).deserialize()))
                for ename, thunk in alts:
                    ok, lst = call(thunk)
                    if not ok:
                        return Fail(f'entry/{ename}-raises/{fname}', f'{tag}: {exc_sig(lst)}: {lst!r}')
                    if not isinstance(lst, list) or len(lst) != 1 or getattr(lst[0], 'hash', None) != parsed.hash or \
                            rc.structurally_equal_lib(root_r, lst[0]):
                        return Fail(f'entry/{ename}-differs/{fname}', f'{tag}: {lst!r}'[:300])
            if minimal:
                continue
            # ... into an application's own Cell subclass whose constructor parses another bag first (a parse inside a parse)
            App = dag.cell_subclass(dag.TEMPLATE_BAG if fname != 'hex' else None)
            ok, sub = call(App.one_from_boc, data)
            if not ok:
                return Fail(f'entry/Cell-subclass.one_from_boc-raises/{fname}', f'{tag}: {exc_sig(sub)}: {sub!r}')
            if sub.hash != parsed.hash or rc.structurally_equal_lib(root_r, sub):
                return Fail(f'entry/Cell-subclass.one_from_boc-differs/{fname}', f'{tag}: {rc.structurally_equal_lib(root_r, sub)}')
            # other entry points
            ok, s = call(lambda: Slice.one_from_boc(data).to_cell())
            if not ok:
                return Fail(f'entry/Slice.one_from_boc-raises/{fname}', f'{tag}: {exc_sig(s)}: {s!r}')
            if s.hash != parsed.hash or rc.structurally_equal_lib(root_r, s):
                return Fail(f'entry/Slice.one_from_boc-differs/{fname}', tag)
            if not root_r.special:
                ok, b = call(lambda: Builder.one_from_boc(data).end_cell())
                if not ok:
                    return Fail(f'entry/Builder.one_from_boc-raises/{fname}', f'{tag}: {exc_sig(b)}: {b!r}')
                if b.hash != parsed.hash or rc.structurally_equal_lib(root_r, b):
                    return Fail(f'entry/Builder.one_from_boc-differs/{fname}', tag)
        # serialising the parsed tree again gives the same bytes (serialisation is a function of the DAG)
        ok, again = call(first.to_boc, bool(idx), bool(crc), bool(cache))
        if not ok or again != boc:
            return Fail('roundtrip/reserialised-bytes-differ', tag)
    return None


def enum_boundary(tier):
    for name, spec in boccases.boundary_specs(tier):
        if len(spec) > 60000 and name.startswith('payload='):      # multi-megabyte bags: two option sets, bytes form only
            yield {'spec': spec, 'light': True, 'minimal': True, 'optsets': [[1, 1, 1], [1, 0, 0]], 'name': name + '/two-option-sets'}
            continue
        yield {'spec': spec, 'light': True, 'name': name}
    for total in (65537, 131073, 1 << 20, 1000000, 100000) + ((3 * (1 << 18), (1 << 20) + 1, 1 << 21) if tier != 'quick' else ()):
        # bags whose length before the checksum is exactly a block boundary (+1) of anything that works block by block
        yield {'spec': boccases.bag_of_total_length(total), 'light': True, 'minimal': True, 'optsets': [[0, 1, 0], [1, 1, 1]], 'name': 'bag-length=%d' % total}
    if tier == 'quick':
        for n in (65535, 65536):       # the 2-byte / 3-byte reference-width boundary (thorough: full matrix, 65 535..65 537)
            yield {'spec': boccases.heap_spec(n), 'light': True, 'minimal': True, 'name': 'cells=%d/one-option-set' % n}


def strat(tier):
    return st.fixed_dictionaries({'spec': boccases.st_spec(tier)})


def classify(case):
    kinds, sharing = boccases.spec_stats(case['spec'])
    n = len(case['spec'])
    yield 'nodes=' + ('1' if n == 1 else '2-8' if n <= 8 else '9-32' if n <= 32 else '33-254' if n < 255 else '255+')
    yield 'sharing' if sharing else 'tree'
    yield 'exotic' if kinds - {'o'} else 'ordinary'
    yield 'root-exotic' if case['spec'][-1]['k'] != 'o' else 'root-ordinary'
    if 'name' in case:
        yield case['name']


def nt(case):
    return len(case['spec']) > 1


# -- temporaries: every input (and every tree) dies before the next one of the same size is made -------------------------------------

def family_spec(n, sizes, arity, tag):
    """n-cell `arity`-ary tree (arity 1: a chain); cell i has sizes[i % len(sizes)] data bits. The same n / sizes / arity give the
    same shape and the same bag LENGTH for every tag, but other data bits in every cell"""
    spec = []
    for i in range(n):
        h = n - 1 - i
        refs = [n - 1 - c for c in range(arity * h + 1, arity * h + arity + 1) if c < n]
        spec.append({'k': 'o', 'b': [sizes[i % len(sizes)], 2, tag * 1000003 + i], 'r': refs})
    return spec


# one input object per call, made from the bag that is kept; nobody else holds it
TEMP_FORMS = {
    'bytes': lambda boc: bytes(memoryview(boc)),
    'hex': lambda boc: boc.hex(),
    'HEX': lambda boc: boc.hex().upper(),
    'base64': lambda boc: base64.b64encode(boc).decode(),
}
TEMP_ENTRIES = ('Cell.one_from_boc', 'Cell.from_boc', 'Slice.one_from_boc', 'Builder.one_from_boc', 'Boc.deserialize')


def _entry(name):
    from pytoniq_core.boc.cell import Cell
    from pytoniq_core.boc.slice import Slice
    from pytoniq_core.boc.builder import Builder
    from pytoniq_core.boc.deserialize import Boc
    return {'Cell.one_from_boc': lambda d: Cell.one_from_boc(d), 'Cell.from_boc': lambda d: Cell.from_boc(d)[0],
            'Slice.one_from_boc': lambda d: Slice.one_from_boc(d).to_cell(), 'Builder.one_from_boc': lambda d: Builder.one_from_boc(d).end_cell(),
            'Boc.deserialize': lambda d: Boc(d).deserialize()[0]}[name]


def _serialise_temporary_tree(cells, opts):
    """the library tree is built, serialised and dropped inside this frame: the next tree is built where this one lived"""
    lib = dag.lib_from_ref(cells, 'builder')
    addr = {id(c) for c in lib}
    ok, boc = call(lib[-1].to_boc, *opts)
    del lib
    return addr, ok, boc


def _parse_temporary(form, boc, entries):
    """the input object lives in this frame only; it is gone when the next one is made"""
    data = TEMP_FORMS[form](boc)
    addr = id(data)
    out = []
    for e in entries:                   # the same living object handed to one or two entry points: legitimately the same bag
        ok, res = call(_entry(e), data)
        out.append((e, ok, res))
        if not ok:
            break
    del data
    return addr, out


def check_temporaries(case):
    """History: bags of the SAME length and other content follow each other, and each input object (bytes copy, hex / base64 text)
    - and each tree on the serialising side - is dropped before the next is made, as when bags are read line by line from a file
    or a socket. The allocator then hands the next object the address of the dead one; whatever the library remembers about 'this
    object' (by id(), by address, by a weak reference) now describes another bag. Oracle: every parse yields the root (hash and
    structure) of the reference tree of the bag that was handed in."""
    from harness.core import note
    opts = tuple(bool(x) for x in case['opts'])
    trees = [dag.build_ref(family_spec(case['n'], case['sizes'], case['arity'], tag)) for tag in case['tags']]
    bocs, addrs = [], []
    for cells in trees:                 # nothing else is allocated between one library tree and the next
        addr, ok, boc = _serialise_temporary_tree(cells, opts)
        if not ok:
            return Fail(f'temporaries/to_boc-raises/{type(boc).__name__}', f'{exc_sig(boc)}: {boc!r}')
        if not isinstance(boc, (bytes, bytearray)):
            return Fail('temporaries/to_boc/not-bytes', repr(type(boc)))
        bocs.append(bytes(boc))
        addrs.append(addr)
    trees = [cells[-1] for cells in trees]
    note('temporaries:cells-built-at-the-address-of-a-dead-cell', sum(len(a & b) for a, b in zip(addrs, addrs[1:])))
    hashes = [t.repr_hash() for t in trees]
    from pytoniq_core.boc.cell import Cell
    for k, boc in enumerate(bocs):      # what each short-lived tree was serialised to denotes that tree
        ok, parsed = call(Cell.one_from_boc, boc)
        if not ok:
            return Fail(f'temporaries/parse-raises/bag-of-a-short-lived-tree/{type(parsed).__name__}', f'bag {k}: {exc_sig(parsed)}: {parsed!r}')
        if parsed.hash != hashes[k] or rc.structurally_equal_lib(trees[k], parsed):
            return Fail('temporaries/roundtrip-of-a-short-lived-tree-differs', f'bag {k} of tags {case["tags"]}, n={case["n"]}: '
                        f'{parsed.hash.hex()} vs {hashes[k].hex()} {rc.structurally_equal_lib(trees[k], parsed)}')
    del parsed
    last = None
    for k, form, entries in case['steps']:
        k %= len(bocs)
        addr, out = _parse_temporary(form, bocs[k], entries)
        note('temporaries:input-at-the-address-of-the-dead-one' if addr == last else 'temporaries:input-at-a-new-address')
        last = addr
        for e, ok, parsed in out:
            def what():         # (made only when something is wrong: a string of about the input's size would take the dead input's place)
                return f'{form} form of bag {k} ({len(bocs[k])} bytes, {case["n"]} cells) through {e}, steps={case["steps"]}'
            if not ok:
                return Fail(f'temporaries/parse-raises/{form}/{type(parsed).__name__}', f'{what()}: {exc_sig(parsed)}: {parsed!r}')
            if parsed.hash != hashes[k]:
                other = [j for j, h in enumerate(hashes) if h == parsed.hash]
                if other:
                    return Fail(f'temporaries/parsed-to-an-earlier-bag-of-the-same-length/{form}',
                                f'{what()}: got the root of bag {other[0]}, whose input object was dropped before this one was made')
                return Fail(f'temporaries/hash-differs/{form}', f'{what()}: {parsed.hash.hex()} vs {hashes[k].hex()}')
            diff = rc.structurally_equal_lib(trees[k], parsed)
            if diff:
                return Fail(f'temporaries/structure-differs/{form}', f'{what()}: {diff}')
        del out, parsed
    return None


def _steps(nbags, form, length, double_at=2):
    """bags 0,1,2,.. in turn, then back and forth; entry points in rotation; one step hands the living object to two entry points"""
    seq = (list(range(nbags)) + list(range(nbags - 1, -1, -1)) + [0, 1] * 3)[:length]
    return [[k, form, [TEMP_ENTRIES[j % 5]] + ([TEMP_ENTRIES[(j + 1) % 5]] if j == double_at else [])] for j, k in enumerate(seq)]


def enum_temporaries(tier):
    sizes = [1016, 1016, 1023, 1009]
    # bag lengths: ~0.5 / 5 / 70 / 140 KB (below and above 64 KiB and the allocator's 128 KiB), then texts of >= 2^20 characters
    for n in (3, 40, 520, 1040):
        for form in TEMP_FORMS:
            for opts in ([1, 1, 0], [0, 0, 0]) if n < 500 else ([1, 1, 0],):
                yield {'n': n, 'sizes': sizes, 'arity': 4, 'tags': [1, 2, 3], 'opts': opts, 'steps': _steps(3, form, 8), 'name': f'cells={n}/{form}'}
    big = [(4100, 'hex'), (4100, 'HEX'), (6200, 'base64'), (8000, 'bytes')]
    if tier != 'quick':
        big += [(n, f) for n in (8000, 16500) for f in TEMP_FORMS]
    for n, form in big:
        yield {'n': n, 'sizes': sizes, 'arity': 4, 'tags': [1, 2], 'opts': [1, 1, 0], 'steps': _steps(2, form, 4, double_at=3), 'name': f'cells={n}/{form}'}


def strat_temporaries(tier):
    step = st.tuples(st.integers(0, 2), st.sampled_from(sorted(TEMP_FORMS)),
                     st.lists(st.sampled_from(TEMP_ENTRIES), min_size=1, max_size=2)).map(list)
    return st.fixed_dictionaries({
        'n': st.one_of(st.integers(1, 12), st.integers(1, 120)), 'arity': st.integers(1, 4),
        'sizes': st.lists(st.one_of(st.integers(1, 1023), st.sampled_from([8, 256, 1016, 1023])), min_size=1, max_size=4),
        'tags': st.lists(st.integers(0, 999), min_size=2, max_size=3, unique=True),
        'opts': st.sampled_from(boccases.OPTSETS).map(list),
        'steps': st.lists(step, min_size=2, max_size=10)})


def classify_temporaries(case):
    n = case['n']
    yield 'nodes=' + ('1' if n == 1 else '2-8' if n <= 8 else '9-32' if n <= 32 else '33-254' if n < 255 else '255+')
    for f in sorted({s[1] for s in case['steps']}):
        yield 'form=' + f
    if any(len(s[2]) > 1 for s in case['steps']):
        yield 'one-object-through-two-entry-points'
    if any(a[0] % len(case['tags']) != b[0] % len(case['tags']) and a[1] == b[1] for a, b in zip(case['steps'], case['steps'][1:])):
        yield 'another-bag-of-the-same-length-in-the-same-form-next'
    if 'name' in case:
        yield case['name']


SUBCHECKS = [
    Sub('boundary-sizes', check, enum=enum_boundary, classify=classify, nontrivial=nt, shards=(16, 24), case_cpu_s=600,
        note='exact cell-count / payload-size boundaries of the size and offset fields; depth-1023 chain and ladder'),
    Sub('dags-x-6-optionsets', check, strategy=strat, classify=classify, nontrivial=nt, n=(800, 15000), shards=(16, 32)),
    Sub('temporaries-of-equal-size', check_temporaries, enum=enum_temporaries, classify=classify_temporaries, shards=(12, 16), case_cpu_s=300,
        note='2-3 bags of the same length and other content (0.5 KB .. 1 MB; texts of >= 2^20 characters) parsed in turn, every input '
             'object (bytes copy / hex / HEX / base64 text) and every serialised tree dropped before the next one is made; classes '
             'temporaries:* count how often the next object really got the address of the dead one'),
    Sub('temporaries-random', check_temporaries, strategy=strat_temporaries, classify=classify_temporaries, n=(100, 4000), shards=(4, 16)),
]

# the same generated cases, several at a time, checked by threads that run at the same time (core.run_overlapping): per-call state
# kept in a place two calls share shows only there
SUBCHECKS.append(__import__('harness.core', fromlist=['overlapped']).overlapped(next(s for s in SUBCHECKS if s.name == 'dags-x-6-optionsets'), k=2, n=(20, 600)))
