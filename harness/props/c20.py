"""C20 — ADNL channel crypto is symmetric between peers; signatures verify only when untouched; mnemonics valid and
key derivation deterministic.

How the two ends are modelled (pytoniq_core/crypto/ciphers.py:AdnlChannel.__init__(client, server, local_id, peer_id)):
a peer builds its channel object from ITS OWN private key (`Client(seed)`), the OTHER side's public key
(`Server(host, port, pub)`), its own id as `local_id` and the other side's id as `peer_id`; the ids are what
`Client.get_key_id()` / `Server.get_key_id()` return (that is how the ADNL transport built on this package calls it).
So for seeds a, b:      A = AdnlChannel(Client(a), Server(.., pub(b)), id_A, id_B)
                        B = AdnlChannel(Client(b), Server(.., pub(a)), id_B, id_A)
The public key handed to `Server` is computed by libsodium in the harness (it is what arrives over the wire).
Three id modes: 'chan' ids are the key ids of the channel keys themselves; 'lt' ids are the key ids of separate
long-term keys (as in the real transport, where channel keys are ephemeral); 'raw' ids are explicit 32-byte strings
(equal, or differing in exactly one byte at the first / a middle / the last position, both orders).

Oracle.
* channel: RELATIONAL two-ended oracle plus the layout facts of the statement — for pkt = X.encrypt(p):
  pkt[:32] == Y.server_aes_key_id (the id under which the peer files its receiving key), pkt[32:64] == sha256(p)
  (hashlib), Y.decrypt(pkt[64:], pkt[32:64]) == p; both directions, two different plaintexts.
  I deliberately did NOT re-derive the shared secret / AES key+iv in the harness and compare: the statement only
  demands symmetry, not a particular derivation (a derivation changed identically on both ends still satisfies it).
  (Spot check done by hand, not asserted: libsodium crypto_scalarmult of the converted keys equals `channel_shared`.)
  "All plaintexts" includes plaintexts MADE OF THE CHANNEL'S OWN VALUES (`_self_referential`): a packet this channel or the peer's
  just emitted, sent on as the payload of the next packet (tunnelling / forwarding / resend), nested up to three deep and peeled
  again by the peer; the first 31/32/33/64 bytes of such a packet alone or followed by text; its checksum field; its ciphertext;
  each side's client_aes_key_id / server_aes_key_id and the two ids, alone or followed by text. Same three facts are checked.
  Grid cases try every kind, random cases three kinds drawn with the case (field 'sr').
* signatures: INDEPENDENT oracle for the positive half (libsodium crypto_sign_open via harness/ref/refkeys.py) plus
  the library's own verify_sign; negative half: verify_sign(...) must not return a truthy value (False or any
  exception are both fine) for another message (generated / 1 bit flipped / truncated / extended), another key
  (other seed / 1 bit flipped) or an altered signature (1 bit flipped / byte appended / last byte dropped).
  "Another message" also covers messages RELATED to the signed one (`_RELATIVES`): its SHA-256 / double SHA-256 / SHA-512 /
  SHA-512[:32] (every case) and, three per case, SHA3-256, BLAKE2b-32, SHA-1, hex / upper hex / base64 text, hex digest text,
  zero-padded, zero-stripped, length-prefixed, byte-reversed, safe-sign-prefixed - in BOTH directions: the signature of m is
  presented for t(m), and the signature of t(m) (made with the library's helpers) is presented for m ("the digest was signed,
  the payload is shown").
  Helpers covered: signature.sign_message(m, sk64), ciphers.get_signature(SigningKey, m), ciphers.Client.sign(m);
  the "matching public key" is taken both from libsodium and from keys.private_key_to_public_key(sk64).
* mnemonics: mnemonic_is_valid(mnemonic_new()) and the INDEPENDENT documented rule (24 words, basic-seed test) from
  refkeys; mnemonic_to_wallet_key called twice gives equal results and equals refkeys.wallet_key (HMAC-SHA512 entropy,
  PBKDF2-HMAC-SHA512 'TON default seed' x100000, first 32 bytes = Ed25519 seed).
  mnemonic_new() draws from os.urandom, so those cases carry only an index; a failure stores the drawn words in the
  detail, and a case {'words': [...]} replays them (edit the replay file's case to that form).
  Cases {'stream', 'lens'} replace os.urandom for the call by a steered source: every candidate phrase the generator tries has
  the designed byte length L = sum(lens) + 23 (all of 95..215 in the thorough tier; quick: every 6th plus the hash block/padding
  boundaries 111..113, 119..121, 127..129, 143..145, 159..161, 191..193 and the extremes) - lengths a real source meets once in
  tens of thousands of candidates. mnemonic-derive also takes fixed words of designed phrase length 127/128/129 (thorough: more).
* several threads (core.hammer; oracle = what each call gives alone, plus the independent rules above inside the thunks):
  `two-threads-mnemonics` - mnemonic_new / mnemonic_is_valid / mnemonic_to_wallet_key called by 2-4 threads at once (every generated
  mnemonic valid by the library and by the documented rule, every derived key the documented one), after a one-thread history
  (draw, draw, edit the second list, draw: the first list unchanged, the third valid);
  `two-threads-crypto-hammer` - sign / verify / channel construction / encrypt / decrypt in tight loops by 4 threads.

Deliberately NOT asserted (not in the statement):
* which of the two directions uses the reversed secret, the value of the shared secret, the AES key/iv slicing,
  ciphertext length, that the two directions use different keys, what decrypt does with a wrong checksum;
* `Crypto.get_key_id` / `get_aes_key_id` values, Client/Server x25519 attributes (Client/Server expose no cipher of
  their own in ciphers.py — the only encrypt/decrypt pair is AdnlChannel, so there is no separate Server/Client
  symmetry sub-check; Client.sign is covered under signatures);
* equality of the signatures produced by the different helpers, signature length, sign_message's `encoder` argument;
* that mnemonic_is_valid rejects anything; the `password` / `words_count` arguments (password is ignored by the
  library, marked TODO there); membership of the words in the BIP-39 list.
"""
import hashlib

from hypothesis import strategies as st
from harness.core import Sub, Fail, call, exc_sig
from harness.ref import refkeys

RULE = ('channel case = (seed a, seed b, id mode chan|lt|raw with its seeds/ids, plaintexts p and q of 0..2000 bytes); '
        'both peers are built and both directions checked in every case. signature case = (seed, message 0..300 bytes, '
        'other seed, other message, bit positions for the message/key/signature flips); every signature case applies all '
        'tamper kinds plus related messages (digests / text encodings / framings of the signed message, both directions). '
        'every non-large channel case also sends plaintexts made of the channel\'s own values (emitted packets nested up to 3 deep, '
        'packet prefixes, checksum field, ciphertext, key ids, peer ids; all kinds in grid cases, 3 drawn kinds in random cases). '
        'mnemonic cases = index of a fresh mnemonic_new() draw, a draw from a supplied random stream (with edge words, a stuck '
        'source, or steered so that every candidate phrase has a designed byte length 95..215), or 24 fixed words; the generator, the validity test '
        'and the derivation are also called by 2-4 threads at the same time, and signing / verifying / channel calls by 4 threads in tight loops. '
        'non-trivial = channel case whose A-side id is greater than or equal to the B-side id (descending or equal), or a '
        'signature case (each one is a tampered-signature case); mnemonic cases are not counted as non-trivial '
        '(the rule given for this property does not name them). distinct = distinct case')
ASSUMPTIONS = ['libsodium (nacl.bindings) Ed25519 key generation and verification, pinned by RFC 8032 vector 1 in '
               'harness/ref/refkeys.py', 'hashlib sha256 / hmac / pbkdf2_hmac',
               'TON mnemonic derivation as documented for the standard wallets (refkeys docstring)']


# --------------------------------------------------------------------------------------------------
# channel

def _case_ids(case):
    """harness-side ids (for classify / nontrivial only): -> (id of A, id of B)"""
    ids = case['ids']
    if ids['mode'] == 'raw':
        return bytes.fromhex(ids['ia']), bytes.fromhex(ids['ib'])
    sa, sb = (case['a'], case['b']) if ids['mode'] == 'chan' else (ids['la'], ids['lb'])
    return (refkeys.adnl_key_id(refkeys.ed_keypair(bytes.fromhex(sa))[0]),
            refkeys.adnl_key_id(refkeys.ed_keypair(bytes.fromhex(sb))[0]))


def _order(local_id, peer_id):
    return 'ids-equal' if local_id == peer_id else 'sender-id-greater' if local_id > peer_id else 'sender-id-less'


def _direction(tag, snd, rcv, order, p):
    ok, pkt = call(snd.encrypt, p)
    if not ok:
        return Fail(f'channel/encrypt-raises/{exc_sig(pkt)}', f'{tag}: {pkt!r}')
    if not isinstance(pkt, (bytes, bytearray)) or len(pkt) < 64:
        return Fail('channel/packet-shorter-than-64-byte-header', f'{tag}: {pkt!r}'[:300])
    pkt = bytes(pkt)
    ok, expected_id = call(getattr, rcv, 'server_aes_key_id')
    if not ok:
        return Fail('channel/peer-has-no-server_aes_key_id', repr(expected_id))
    if pkt[:32] != expected_id:
        return Fail(f'channel/key-id-not-the-one-peer-expects/{order}',
                    f'{tag}: packet starts with {pkt[:32].hex()}, peer expects {bytes(expected_id).hex()}')
    if pkt[32:64] != hashlib.sha256(p).digest():
        return Fail('channel/checksum-field-not-sha256-of-plaintext',
                    f'{tag}: {pkt[32:64].hex()} != {hashlib.sha256(p).hexdigest()} (plaintext {len(p)} bytes)')
    ok, out = call(rcv.decrypt, pkt[64:], pkt[32:64])
    if not ok:
        return Fail(f'channel/decrypt-raises/{exc_sig(out)}', f'{tag}: {out!r}')
    if out != p:
        return Fail(f'channel/peer-decrypt-differs/{order}',
                    f'{tag}: plaintext {len(p)} bytes {p.hex()[:64]}… came back as {bytes(out).hex()[:64]}…')
    return None


def _plain_of(case, nm):
    """plaintext given in hex, or compactly as {'n': length, 's': seed} (large payloads: a SHA-256 counter stream)"""
    v = case[nm]
    if isinstance(v, str):
        return bytes.fromhex(v)
    out = bytearray()
    c = 0
    while len(out) < v['n']:
        out += hashlib.sha256(b'c20/plain/%d/%d' % (v['s'], c)).digest() * 64
        c += 1
    return bytes(out[:v['n']])


def enum_channel_large(tier):
    """payloads around every power of two 2^12..2^21 (thorough 2^24) and a few multiples: buffers, block and chunk sizes"""
    top = 22 if tier == 'quick' else 25
    sizes = sorted({(1 << k) + d for k in range(12, top) for d in (-1, 0, 1)} | {3 * (1 << 20) - 1, 5 * 65536 + 3, 1000000})
    for i, n in enumerate(sizes):
        a, b = hashlib.sha256(b'c20/la/%d' % (i % 3)).digest(), hashlib.sha256(b'c20/lb/%d' % (i % 3)).digest()
        if i % 2:
            a, b = b, a
        yield {'a': a.hex(), 'b': b.hex(), 'ids': {'mode': 'chan'}, 'p': {'n': n, 's': i}, 'q': {'n': (n * 7) % 50021, 's': i + 1000}, 'large': 1}


def check_channel(case):
    from pytoniq_core.crypto.ciphers import Client, Server, AdnlChannel
    a, b = bytes.fromhex(case['a']), bytes.fromhex(case['b'])
    p, q = _plain_of(case, 'p'), _plain_of(case, 'q')
    pub_a, pub_b = refkeys.ed_keypair(a)[0], refkeys.ed_keypair(b)[0]
    ids = case['ids']

    def build():
        ca, sb = Client(a), Server('10.0.0.2', 2, pub_b)       # what A holds
        cb, sa = Client(b), Server('10.0.0.1', 1, pub_a)       # what B holds
        if ids['mode'] == 'chan':
            a_local, a_peer = ca.get_key_id(), sb.get_key_id()
            b_local, b_peer = cb.get_key_id(), sa.get_key_id()
        elif ids['mode'] == 'lt':
            la, lb = bytes.fromhex(ids['la']), bytes.fromhex(ids['lb'])
            a_local = Client(la).get_key_id()
            a_peer = Server('10.0.0.2', 2, refkeys.ed_keypair(lb)[0]).get_key_id()
            b_local = Client(lb).get_key_id()
            b_peer = Server('10.0.0.1', 1, refkeys.ed_keypair(la)[0]).get_key_id()
        else:
            a_local = b_peer = bytes.fromhex(ids['ia'])
            b_local = a_peer = bytes.fromhex(ids['ib'])
        return (AdnlChannel(ca, sb, a_local, a_peer), AdnlChannel(cb, sa, b_local, b_peer),
                _order(a_local, a_peer), _order(b_local, b_peer))

    ok, res = call(build)
    if not ok:
        return Fail(f'channel/construction-raises/{exc_sig(res)}', repr(res))
    cha, chb, ord_a, ord_b = res
    for tag, snd, rcv, order, data in (('A->B', cha, chb, ord_a, p), ('B->A', chb, cha, ord_b, q),
                                       ('A->B second packet', cha, chb, ord_a, q), ('B->A second packet', chb, cha, ord_b, p),
                                       # the same plaintext again on the same channel object (no cipher state carried over)
                                       ('A->B same plaintext again', cha, chb, ord_a, p), ('A->B third', cha, chb, ord_a, p),
                                       ('B->A same plaintext again', chb, cha, ord_b, q)):
        f = _direction(tag, snd, rcv, order, data)
        if f is not None:
            return f
    # plaintexts made of the channel's own values (done here: the third-party block below rebinds `chb` to B's channel towards C)
    if not case.get('large'):
        f = _self_referential(cha, chb, ord_a, ord_b, p, q, a_ids=_safe_ids(case), pick=case.get('sr'))
        if f is not None:
            return f
    # a THIRD party C opens a channel to B through the very Server object A used (objects describing a peer are re-used across
    # channels): C -> B works like A -> B did
    if ids['mode'] == 'chan':
        c = hashlib.sha256(b'third/' + a + b).digest()
        if c not in (a, b):
            pub_c = refkeys.ed_keypair(c)[0]

            def build2():
                ca, sb = Client(a), Server('10.0.0.2', 2, pub_b)
                cha1 = AdnlChannel(ca, sb, ca.get_key_id(), sb.get_key_id())
                cha1.encrypt(b'warm-up')
                cc = Client(c)
                chc = AdnlChannel(cc, sb, cc.get_key_id(), sb.get_key_id())          # same Server object, another client
                cb, sc = Client(b), Server('10.0.0.3', 3, pub_c)
                chb = AdnlChannel(cb, sc, cb.get_key_id(), sc.get_key_id())
                return chc, chb, _order(cc.get_key_id(), sb.get_key_id()), _order(cb.get_key_id(), sc.get_key_id())
            ok, res = call(build2)
            if not ok:
                return Fail(f'channel/construction-raises/shared-server-object/{exc_sig(res)}', repr(res))
            chc, chb, ord_c, ord_b2 = res
            for tag, snd, rcv, order, data in (('C->B over the Server object A used', chc, chb, ord_c, p or b'x'),
                                               ('B->C', chb, chc, ord_b2, q or b'y')):
                f = _direction(tag, snd, rcv, order, data)
                if f is not None:
                    return Fail(f.signature + '/server-object-shared-by-two-clients', f.detail)
    return None


def _safe_ids(case):
    try:
        return _case_ids(case)
    except Exception:
        return ()


def _self_referential(cha, chb, ord_a, ord_b, p, q, a_ids=(), pick=None):
    """"all plaintexts" includes plaintexts that are made of the channel's OWN values: a packet this channel (or the peer's) emitted
    a moment ago sent on as the payload of the next packet (tunnelling / forwarding / a resend queue), two levels of that, a payload
    that begins with (or is) a key identifier, the checksum field or the ciphertext of an earlier packet, or one of the two ids.
    Such a payload is a plaintext like any other: packet layout, checksum and the peer's decryption are checked exactly as before.
    `pick` (case field 'sr'): None = every kind (grid cases, replays); a list of integers = those kinds only (random cases draw three)."""
    for tag, snd, rcv, order, base, other in (('A->B', cha, chb, ord_a, p, q), ('B->A', chb, cha, ord_b, q, p)):
        ok, own = call(snd.encrypt, base)
        ok2, theirs = call(rcv.encrypt, other)
        if not ok or not ok2 or not isinstance(own, (bytes, bytearray)) or not isinstance(theirs, (bytes, bytearray)):
            continue                                  # already reported by the plain directions
        own, theirs = bytes(own), bytes(theirs)
        text = base[:40] or b'quoted'
        derived = [('own-packet', own), ('peer-packet', theirs),
                   ('own-packet-first-32', own[:32]), ('own-packet-first-32+text', own[:32] + text), ('own-packet-first-31', own[:31]),
                   ('own-packet-first-33', own[:33]), ('own-packet-first-64', own[:64]), ('own-packet-first-64+text', own[:64] + text),
                   ('peer-packet-first-32', theirs[:32]), ('peer-packet-first-32+text', theirs[:32] + text),
                   ('peer-packet-first-64', theirs[:64]),
                   ('own-checksum-field', own[32:64]), ('own-checksum-field+text', own[32:64] + text),
                   ('own-ciphertext', own[64:]), ('peer-ciphertext', theirs[64:]),
                   ('text+own-packet', text + own), ('own-packet-twice', own + own)]
        for nm in ('client_aes_key_id', 'server_aes_key_id'):
            for side, ch in (('own', snd), ('peer', rcv)):
                v = getattr(ch, nm, None)
                if isinstance(v, (bytes, bytearray)):
                    derived += [(f'{side}.{nm}', bytes(v)), (f'{side}.{nm}+text', bytes(v) + text)]
        for i, v in enumerate(a_ids):
            derived += [(f'peer-id-{i}', v), (f'peer-id-{i}+text', v + text)]
        if pick is not None:
            derived = [derived[i % len(derived)] for i in pick]
        for kind, data in derived:
            f = _direction(f'{tag}, plaintext = {kind}', snd, rcv, order, data)
            if f is not None:
                return Fail(f.signature + '/plaintext-made-of-channel-values', f.detail)
        # two and three levels of nesting, peeled again by the peer one level at a time
        cur, layers = base, []
        for depth in range(3):
            ok, pkt = call(snd.encrypt, cur)
            if not ok or not isinstance(pkt, (bytes, bytearray)) or len(pkt) < 64:
                return Fail('channel/nested-packet/encrypt-fails/plaintext-made-of-channel-values', f'{tag} depth {depth}: {pkt!r}'[:300])
            layers.append(cur)
            cur = bytes(pkt)
        for depth in range(2, -1, -1):
            if cur[32:64] != hashlib.sha256(layers[depth]).digest():
                return Fail('channel/checksum-field-not-sha256-of-plaintext/plaintext-made-of-channel-values',
                            f'{tag}: packet nested {depth + 1} deep, checksum field is not the SHA-256 of its payload')
            ok, out = call(rcv.decrypt, cur[64:], cur[32:64])
            if not ok or bytes(out) != layers[depth]:
                return Fail(f'channel/peer-decrypt-differs/{order}/plaintext-made-of-channel-values',
                            f'{tag}: packet nested {depth + 1} deep did not peel back to its payload: {out!r}'[:300])
            cur = bytes(out)
    return None


_EDGE_SEEDS = [b'\x00' * 32, b'\xff' * 32, b'\x00' * 31 + b'\x01', b'\x80' + b'\x00' * 31, bytes(range(32))]
_seed = st.one_of(st.binary(min_size=32, max_size=32), st.binary(min_size=32, max_size=32), st.sampled_from(_EDGE_SEEDS))


def _mkpair(x, y, equal):
    """constructs (don't filter): an equal pair on request, otherwise a pair guaranteed distinct"""
    if equal:
        return (x, x)
    return (x, y if y != x else hashlib.sha256(y).digest())


_seed_pair = st.builds(_mkpair, _seed, _seed, st.sampled_from([False, False, False, False, True]))


def _near(base, pos, delta, swap):
    other = bytearray(base)
    other[pos] ^= delta
    x, y = (bytes(other), base) if swap else (base, bytes(other))
    return {'mode': 'raw', 'ia': x.hex(), 'ib': y.hex()}


_POS = st.one_of(st.sampled_from([0, 31]), st.integers(0, 31))
_ids = st.one_of(
    st.just({'mode': 'chan'}),
    st.just({'mode': 'chan'}),
    _seed_pair.map(lambda t: {'mode': 'lt', 'la': t[0].hex(), 'lb': t[1].hex()}),
    _seed_pair.map(lambda t: {'mode': 'raw', 'ia': t[0].hex(), 'ib': t[1].hex()}),
    st.builds(_near, _seed, _POS, st.integers(1, 255), st.booleans()),
)
_plain = st.one_of(st.binary(min_size=1, max_size=48), st.binary(min_size=0, max_size=2000),
                   st.builds(lambda c, n: bytes([c]) * n, st.integers(0, 255), st.integers(0, 2000)),
                   st.sampled_from([b'', b'\x00', b'\x00' * 16, b'\x00' * 2000]))


def strat_channel(tier):
    return st.builds(lambda sp, ids, p, q, sr: {'a': sp[0].hex(), 'b': sp[1].hex(), 'ids': ids, 'p': p.hex(), 'q': q.hex(), 'sr': sr},
                     _seed_pair, _ids, _plain, _plain, st.lists(st.integers(0, 28), min_size=3, max_size=3))


def enum_channel(tier):
    """deterministic grid: guarantees both id orders, equal ids and the plaintext length boundaries in every run"""
    def h(tag, k):
        return hashlib.sha256(b'c20/%s/%d' % (tag, k)).digest()
    nseed = 4 if tier == 'quick' else 40
    lens = [0, 1, 15, 16, 17, 31, 32, 33, 255, 256, 1999, 2000]
    k = 0
    for i in range(nseed):
        a, b = h(b'a', i), h(b'b', i)
        modes = [{'mode': 'chan'}, {'mode': 'lt', 'la': h(b'la', i).hex(), 'lb': h(b'lb', i).hex()},
                 {'mode': 'lt', 'la': h(b'la', i).hex(), 'lb': h(b'la', i).hex()},
                 {'mode': 'raw', 'ia': h(b'ia', i).hex(), 'ib': h(b'ia', i).hex()}]
        for pos in (0, 17, 31):
            for swap in (False, True):
                modes.append(_near(h(b'n', i), pos, 1 << (i % 8), swap))
        for (x, y) in ((a, b), (b, a), (a, a)):
            for ids in modes:
                n1, n2 = lens[k % len(lens)], lens[(k // len(lens) + k) % len(lens)]
                k += 1
                yield {'a': x.hex(), 'b': y.hex(), 'ids': ids, 'p': (h(b'p', k) * 63)[:n1].hex(), 'q': (h(b'q', k) * 63)[:n2].hex()}


def classify_channel(case):
    ia, ib = _case_ids(case)
    yield 'ids=' + ('equal' if ia == ib else 'A>B(descending)' if ia > ib else 'A<B(ascending)')
    yield 'mode=' + case['ids']['mode']
    if case['ids']['mode'] == 'raw' and ia != ib:
        d = [i for i in range(32) if ia[i] != ib[i]]
        yield 'raw-ids-differ-at=' + ('many' if len(d) > 1 else 'first-byte' if d[0] == 0 else 'last-byte' if d[0] == 31 else 'middle-byte')
    yield 'seeds=' + ('equal' if case['a'] == case['b'] else 'distinct')
    for nm in ('p', 'q'):
        n = len(case[nm]) // 2 if isinstance(case[nm], str) else case[nm]['n']
        yield 'plaintext-len=' + ('0' if n == 0 else '1..16' if n <= 16 else '17..255' if n <= 255 else '256..2000' if n <= 2000 else
                                  '2001..65536' if n <= 65536 else '65537..2^20' if n <= (1 << 20) else '>2^20')


def nt_channel(case):
    ia, ib = _case_ids(case)
    return ia >= ib


# --------------------------------------------------------------------------------------------------
# signatures

def _flip(data, bit):
    out = bytearray(data)
    bit %= len(out) * 8
    out[bit // 8] ^= 1 << (bit % 8)
    return bytes(out)


def _accepts(verify_sign, pk, m, sig):
    """True iff verify_sign returns a truthy value (exceptions count as 'does not verify')"""
    ok, r = call(verify_sign, pk, m, sig)
    return ok and bool(r)


_RELATIVES = [
    ('sha256', lambda m: hashlib.sha256(m).digest()),
    ('sha256-of-sha256', lambda m: hashlib.sha256(hashlib.sha256(m).digest()).digest()),
    ('sha512', lambda m: hashlib.sha512(m).digest()),
    ('sha512-first-32', lambda m: hashlib.sha512(m).digest()[:32]),
    ('sha3_256', lambda m: hashlib.sha3_256(m).digest()),
    ('blake2b-32', lambda m: hashlib.blake2b(m, digest_size=32).digest()),
    ('sha1', lambda m: hashlib.sha1(m).digest()),
    ('hex-text', lambda m: m.hex().encode()),
    ('upper-hex-text', lambda m: m.hex().upper().encode()),
    ('base64-text', lambda m: __import__('base64').b64encode(m)),
    ('sha256-hex-text', lambda m: hashlib.sha256(m).hexdigest().encode()),
    ('zero-padded-to-32', lambda m: m.ljust(32, b'\x00') if len(m) < 32 else m + b'\x00' * (-len(m) % 32 or 32)),
    ('zero-stripped', lambda m: m.strip(b'\x00')),
    ('length-prefixed', lambda m: len(m).to_bytes(4, 'little') + m),
    ('byte-reversed', lambda m: m[::-1]),
    ('ton-safe-sign-prefix', lambda m: b'\xff\xff' + b'ton-safe-sign-magic' + m),
]


_N_DIGEST_RELATIVES = 4          # sha256, sha256-of-sha256, sha512, sha512-first-32: tried in every signature case


def check_sign(case):
    from pytoniq_core.crypto.signature import verify_sign, sign_message
    from pytoniq_core.crypto.ciphers import Client, get_signature
    from pytoniq_core.crypto.keys import private_key_to_public_key
    from nacl.signing import SigningKey
    seed, m = bytes.fromhex(case['seed']), bytes.fromhex(case['msg'])
    pk, sk = refkeys.ed_keypair(seed)
    helpers = (('sign_message', lambda: sign_message(m, sk)),
               ('get_signature', lambda: get_signature(SigningKey(seed), m)),
               ('Client.sign', lambda: Client(seed).sign(m)))
    ok, lib_pk = call(private_key_to_public_key, sk)
    if not ok:
        return Fail(f'keys/private_key_to_public_key-raises/{exc_sig(lib_pk)}', repr(lib_pk))
    sigs = {}
    for name, f in helpers:
        ok, sig = call(f)
        if not ok:
            return Fail(f'sign/{name}/raises/{exc_sig(sig)}', f'seed={seed.hex()} msg={m.hex()[:80]}: {sig!r}')
        if not isinstance(sig, (bytes, bytearray)):
            return Fail(f'sign/{name}/not-bytes', repr(sig)[:200])
        sig = bytes(sig)
        if not refkeys.ed_verify(pk, m, sig):
            return Fail(f'sign/{name}/signature-does-not-verify-under-matching-key(libsodium)',
                        f'seed={seed.hex()} msg({len(m)} bytes)={m.hex()[:160]} sig={sig.hex()}')
        for which, key in (('libsodium-pk', pk), ('private_key_to_public_key', bytes(lib_pk))):
            ok, r = call(verify_sign, key, m, sig)
            if not ok:
                return Fail(f'verify_sign/raises-on-valid-signature/{which}/{exc_sig(r)}', f'{name}: {r!r}')
            if not r:
                return Fail(f'verify_sign/rejects-valid-signature/{which}', f'{name}: seed={seed.hex()} msg={m.hex()[:160]} sig={sig.hex()}')
        sigs.setdefault(sig, name)

    other_seed = bytes.fromhex(case['other_seed'])
    if other_seed == seed:
        other_seed = _flip(seed, 0)
    other_pk = refkeys.ed_keypair(other_seed)[0]
    other_m = bytes.fromhex(case['other_msg'])
    if other_m == m:
        other_m = m + b'\x00'
    msgs = [('other-message', other_m), ('message-extended', m + bytes([case['msgbit'] % 256]))]
    if m:
        msgs += [('message-1-bit-flipped', _flip(m, case['msgbit'])), ('message-truncated', m[:-1])]
    keys = [('other-key', other_pk), ('key-1-bit-flipped', _flip(pk, case['keybit']))]
    for sig, name in sigs.items():
        alts = [('signature-1-bit-flipped', _flip(sig, case['sigbit'])), ('signature-byte-appended', sig + sig[-1:]),
                ('signature-last-byte-dropped', sig[:-1])]
        for kind, m2 in msgs:
            if _accepts(verify_sign, pk, m2, sig):
                return Fail(f'verify_sign/accepts/{kind}', f'signature by {name} of {m.hex()[:120]} accepted for {m2.hex()[:120]}')
        for kind, k2 in keys:
            if _accepts(verify_sign, k2, m, sig):
                return Fail(f'verify_sign/accepts/{kind}', f'signature by {name} under {pk.hex()} accepted under {k2.hex()}')
        for kind, s2 in alts:
            if _accepts(verify_sign, pk, m, s2):
                return Fail(f'verify_sign/accepts/{kind}',
                            f'pk={pk.hex()} msg={m.hex()[:120]} sig={sig.hex()} altered={s2.hex()} (sigbit={case["sigbit"] % 512})')
        # the boundary between signature and message moved: (signature + first k message bytes, rest of the message) and
        # (first 64-k signature bytes, rest of the signature + message) - an altered signature and another message at once
        for k in sorted(k for k in {1, len(m) // 2, len(m)} if 1 <= k <= len(m)):
            if _accepts(verify_sign, pk, m[k:], sig + m[:k]):
                return Fail('verify_sign/accepts/signature-extended-by-message-prefix', f'k={k} pk={pk.hex()} msg={m.hex()[:120]}')
        for k in (1, 32, 63):
            if _accepts(verify_sign, pk, sig[64 - k:] + m, sig[:64 - k]):
                return Fail('verify_sign/accepts/signature-tail-moved-into-message', f'k={k} pk={pk.hex()} msg={m.hex()[:120]}')
    # "any other message" includes messages RELATED to the signed one by a transformation callers and protocols commonly apply
    # (a digest, a double digest, a text encoding, a length/zero framing): the signature of m is not one of t(m), and - the other
    # way round, which is the usual mix-up "the digest was signed, the payload is presented" - the signature of t(m) is not one of m
    rel = case.get('rel', 1)
    first_sig, first_name = next(iter(sigs.items()))
    signers = (('sign_message', lambda x: sign_message(x, sk)), ('get_signature', lambda x: get_signature(SigningKey(seed), x)),
               ('Client.sign', lambda x: Client(seed).sign(x)))
    for ti, (tname, t) in enumerate(_RELATIVES if rel else ()):
        # the digest relatives in every case, three of the others per case (rotating with the case's bit positions)
        if ti >= _N_DIGEST_RELATIVES and (ti + case['msgbit'] + case['msgbit'] // 16) % 4 != 0:
            continue
        tm = t(m)
        if tm == m:
            continue
        if _accepts(verify_sign, pk, tm, first_sig):
            return Fail(f'verify_sign/accepts/related-message/{tname}-of-the-signed-message',
                        f'signature by {first_name} of {m.hex()[:120]} accepted for its {tname} {tm.hex()[:120]}')
        use = signers if tname == 'sha256' else (signers[(ti + case['keybit']) % 3],)
        for name, f in use:
            ok, sig_t = call(f, tm)
            if not ok or not isinstance(sig_t, (bytes, bytearray)):
                continue
            if _accepts(verify_sign, pk, m, bytes(sig_t)):
                return Fail(f'verify_sign/accepts/related-message/signed-message-is-the-{tname}-of-the-presented-one',
                            f'{name} signed {tname}(M) = {tm.hex()[:120]}; verify_sign accepted that signature for M = {m.hex()[:120]} (pk {pk.hex()})')
    # an EMPTY signature with a message that is itself (signature || m) - nothing was signed under that name
    for sig, name in list(sigs.items())[:1]:
        for empty in (b'', bytearray()):
            if _accepts(verify_sign, pk, sig + m, empty):
                return Fail('verify_sign/accepts/empty-signature-with-a-self-signed-message', f'pk={pk.hex()} msg={m.hex()[:120]}')
    # a genuine signature over (extra || m), presented as the signature (sig64 || extra) of m
    extra = bytes.fromhex(case['other_msg'])[:40] or b'\x01'
    s_ext = SigningKey(seed).sign(extra + m).signature
    if _accepts(verify_sign, pk, m, bytes(s_ext) + extra):
        return Fail('verify_sign/accepts/signature-of-prefixed-message-with-prefix-appended', f'pk={pk.hex()} msg={m.hex()[:120]} extra={extra.hex()}')
    return None


_msg = st.one_of(st.binary(min_size=0, max_size=8), st.binary(min_size=0, max_size=300), st.binary(min_size=65, max_size=300),
                 st.sampled_from([b'', b'\x00', b'\x00' * 64, b'\xff' * 65]))


def strat_sign(tier):
    return st.builds(lambda s, m, s2, m2, sb, mb, kb: {'seed': s.hex(), 'msg': m.hex(), 'other_seed': s2.hex(), 'other_msg': m2.hex(),
                                                       'sigbit': sb, 'msgbit': mb, 'keybit': kb},
                     _seed, _msg, _seed, _msg,
                     st.one_of(st.integers(0, 511), st.sampled_from([0, 255, 256, 503, 504, 511])),
                     st.integers(0, 2399), st.one_of(st.integers(0, 255), st.sampled_from([0, 255])))


def enum_sign_bits(tier):
    """every one of the 512 signature bits and 256 key bits flipped once, on a few fixed keys/messages"""
    for k in range(1 if tier == 'quick' else 8):
        seed = hashlib.sha256(b'c20/sign/%d' % k).digest()
        m = (hashlib.sha256(b'c20/msg/%d' % k).digest() * 5)[:(0, 1, 32, 64, 65, 100, 131, 160)[k]]
        for bit in range(512):
            yield {'seed': seed.hex(), 'msg': m.hex(), 'other_seed': hashlib.sha256(seed).hexdigest(), 'other_msg': m[::-1].hex(),
                   'sigbit': bit, 'msgbit': bit, 'keybit': bit % 256, 'rel': int(bit % 16 == 0)}


def classify_sign(case):
    n = len(case['msg']) // 2
    yield 'msg-len=' + ('0' if n == 0 else '1..64' if n <= 64 else '65..300')
    b = case['sigbit'] % 512
    yield 'sig-flip-in=' + ('R' if b < 256 else 'S')
    if b in (255, 511):
        yield 'sig-flip=top-bit-of-' + ('R' if b == 255 else 'S')
    yield 'key-flip=' + ('sign-bit' if case['keybit'] % 256 == 255 else 'y-bits')


# --------------------------------------------------------------------------------------------------
# mnemonics

def _by_len(wordlist):
    d = {}
    for i, w in enumerate(wordlist):
        d.setdefault(len(w), []).append(i)
    return d


def _pick(by_len, n, seed, k):
    """index of a word of n letters (nearest available length if the list has none), chosen by a SHA-256 counter stream"""
    if n not in by_len:
        n = min(by_len, key=lambda x: (abs(x - n), x))
    c = by_len[n]
    return c[int.from_bytes(hashlib.sha256(seed + k.to_bytes(8, 'big')).digest()[:4], 'big') % len(c)]


def _lens_for(total, variant, count=24, lo=3, hi=8):
    """`count` word lengths in lo..hi whose joined phrase (one space between words) is `total` bytes; `variant` rotates the layout"""
    letters = total - (count - 1)
    letters = max(count * lo, min(count * hi, letters))
    base, extra = divmod(letters - count * lo, count)
    lens = [lo + base + (1 if j < extra else 0) for j in range(count)]
    if variant % 3 == 1:                      # spread: move letters from some words to others, sum unchanged
        for j in range(0, count - 1, 2):
            d = min(lens[j] - lo, hi - lens[j + 1], 1 + variant % 2)
            lens[j] -= d
            lens[j + 1] += d
    elif variant % 3 == 2:
        lens.reverse()
    r = variant % count
    return lens[r:] + lens[:r]


def _words_of(case, keys):
    """-> (words, Fail|None). 'i' cases draw a fresh mnemonic (library RNG = os.urandom); 'words'/'idx' cases are fixed"""
    if 'words' in case:
        return list(case['words']), None
    if 'idx' in case:
        wl = keys.words
        return [wl[i % len(wl)] for i in case['idx']], None
    if 'lens' in case and 'stream' not in case:
        # fixed words of the given lengths (no generator involved)
        by_len = _by_len(keys.words)
        seed = bytes.fromhex(case['pick'])
        return [keys.words[_pick(by_len, case['lens'][j], seed, j)] for j in range(len(case['lens']))], None
    if 'lens' in case:
        # the generator's randomness is supplied by the case AND steered: the k-th request of every 24 is answered with the index
        # (big-endian in the leading bytes, the way get_secure_random_number reads it; repeated to fill the request) of a
        # pseudo-randomly picked word of length lens[k], so that EVERY candidate phrase the generator tries has the same designed
        # byte length when joined with spaces (e.g. exactly the hash's block size, one less, one more) - lengths that a real
        # entropy source produces once in tens of thousands of candidates. If the library reads its randomness differently the
        # steering is lost but the case is still a sound "generated mnemonic must be valid" case.
        import os as _os
        state = {'n': 0}
        seed = bytes.fromhex(case['stream'])
        by_len = _by_len(keys.words)
        lens = case['lens']

        def fake(n):
            k = state['n']
            state['n'] += 1
            idx = _pick(by_len, lens[k % len(lens)], seed, k)
            return (idx.to_bytes(2, 'big') * (n // 2 + 1))[:n]
        real = _os.urandom
        _os.urandom = fake
        try:
            ok, w = call(keys.mnemonic_new)
        finally:
            _os.urandom = real
    elif 'stream' in case:
        # the generator's randomness is supplied by the case: os.urandom is replaced, for the duration of the call, by a
        # SHA-256 counter stream in which every `edge`-th request returns all-zero / all-one bytes, so that the first and the
        # last word of the list (index 0 and 2047) are certain to be drawn - reproducible from the case alone
        import os as _os
        state = {'n': 0}
        seed = bytes.fromhex(case['stream'])
        edge = case.get('edge', 5)

        stuck = case.get('stuck', 0)            # the source returns zero bytes for its first `stuck` requests (a starved / mocked
                                                # entropy source that recovers): the generator keeps drawing until a draw is valid
        def fake(n):
            state['n'] += 1
            if state['n'] <= stuck:
                return b'\x00' * n
            if state['n'] % edge == 0:
                return (b'\x00' if (state['n'] // edge) % 2 else b'\xff') * n
            out = b''
            c = 0
            while len(out) < n:
                out += hashlib.sha256(seed + state['n'].to_bytes(8, 'big') + bytes([c])).digest()
                c += 1
            return out[:n]
        real = _os.urandom
        _os.urandom = fake
        try:
            ok, w = call(keys.mnemonic_new)
        finally:
            _os.urandom = real
    else:
        ok, w = call(keys.mnemonic_new)
    if not ok:
        return None, Fail(f'mnemonic_new/raises/{exc_sig(w)}', repr(w))
    if not isinstance(w, (list, tuple)) or not all(isinstance(x, str) for x in w):
        return None, Fail('mnemonic_new/not-a-list-of-words', repr(w)[:300])
    return list(w), None


def check_mnemonic_valid(case):
    from pytoniq_core.crypto import keys
    words, f = _words_of(case, keys)
    if f is not None:
        return f
    shown = ' '.join(words)
    ok, v = call(keys.mnemonic_is_valid, list(words))
    if not ok:
        return Fail(f'mnemonic_is_valid/raises/{exc_sig(v)}', f'{v!r}; drawn mnemonic: {shown}')
    if not v:
        return Fail('mnemonic/generated-mnemonic-rejected-by-mnemonic_is_valid', f'drawn mnemonic (replay with case {{"words": [...]}}): {shown}')
    if not refkeys.mnemonic_valid(words):
        return Fail('mnemonic/generated-mnemonic-invalid-by-documented-rule',
                    f'{len(words)} words, basic-seed test {refkeys.is_basic_seed(refkeys.mnemonic_entropy(words))}; '
                    f'drawn mnemonic (replay with case {{"words": [...]}}): {shown}')
    return None


def check_derive(case):
    from pytoniq_core.crypto import keys
    words, f = _words_of(case, keys)
    if f is not None:
        return f
    shown = ' '.join(words)
    res = []
    # the same 24 words as a list and then as another sequence type Python callers hand over (tuple, one-shot iterator,
    # generator): a form the function does not take may raise, but it never yields ANOTHER key
    form = case.get('form', 'list')
    for attempt in range(2):
        if attempt == 0 or form == 'list':
            arg = list(words)
        elif form == 'tuple':
            arg = tuple(words)
        elif form == 'iter':
            arg = iter(list(words))
        else:
            arg = (w for w in list(words))
        ok, k = call(keys.mnemonic_to_wallet_key, arg)
        if not ok and attempt == 1 and form != 'list':
            res.append(res[0])
            continue
        if not ok:
            return Fail(f'mnemonic_to_wallet_key/raises/{exc_sig(k)}', f'{k!r}; mnemonic: {shown}')
        if not isinstance(k, (tuple, list)) or len(k) != 2:
            return Fail('mnemonic_to_wallet_key/not-a-(public,secret)-pair', f'{k!r}'[:200])
        res.append((bytes(k[0]), bytes(k[1])))
    if res[0] != res[1]:
        return Fail('mnemonic_to_wallet_key/not-deterministic' + ('' if form == 'list' else '/words-given-as-' + form),
                    f'{res[0][0].hex()} vs {res[1][0].hex()}; mnemonic: {shown}')
    exp = refkeys.wallet_key(words)
    if res[0][0] != exp[0]:
        return Fail('mnemonic_to_wallet_key/public-key-differs-from-documented-derivation',
                    f'{res[0][0].hex()} != {exp[0].hex()}; mnemonic: {shown}')
    if res[0][1] != exp[1]:
        return Fail('mnemonic_to_wallet_key/secret-key-differs-from-documented-derivation', f'mnemonic: {shown}')
    # the caller's word LIST derived once, then one word replaced in place (the same list object), derived again: the key belongs to
    # the words the list holds now
    lst = list(words)
    ok, _k = call(keys.mnemonic_to_wallet_key, lst)
    pos = len(lst[3]) % 24
    lst[pos] = 'abandon' if lst[pos] != 'abandon' else 'zoo'
    ok, k2 = call(keys.mnemonic_to_wallet_key, lst)
    if ok:
        exp2 = refkeys.wallet_key(list(lst))
        if (bytes(k2[0]), bytes(k2[1])) != (exp2[0], exp2[1]):
            return Fail('mnemonic_to_wallet_key/stale-after-the-word-list-changed-in-place', f'word {pos} of the list replaced after a first derivation; '
                        f'got public key {bytes(k2[0]).hex()}, documented derivation of the new words gives {exp2[0].hex()}')
    return None


def enum_mnemonic_valid(tier):
    for i in range(20 if tier == 'quick' else 500):
        yield {'i': i}
    for i in range(12 if tier == 'quick' else 200):          # reproducible draws that are certain to contain word 0 / word 2047
        yield {'stream': hashlib.sha256(b'c20/stream/%d' % i).hexdigest()[:16], 'edge': 3 + i % 7}
    # a source that is stuck at zero for thousands of candidates and then recovers (24 requests per candidate)
    for i, cand in enumerate((1000, 4200, 9000) if tier == 'quick' else (1000, 4100, 4200, 9000, 20000, 70000)):
        yield {'stream': hashlib.sha256(b'c20/stuck/%d' % i).hexdigest()[:16], 'edge': 5, 'stuck': 24 * cand + i}
    # every candidate phrase of the designed byte length L, for every length 24 list words can have (95..215; the quick tier takes
    # every 6th length plus the boundaries 95, 96, 111..113, 119..121, 127..129, 143..145, 159..161, 191..193, 214, 215): among them the
    # block sizes and padding boundaries of the hashes involved (64, 111/112, 119/120, 127/128/129, 192 ...) - whichever
    # length is special to an implementation of the validity test, the generator must not hand out an invalid mnemonic
    edges = {95, 96, 214, 215} | {b + d for b in (112, 120, 128, 144, 160, 192) for d in (-1, 0, 1)}
    for L in range(95, 216):
        if tier == 'quick' and L not in edges and L % 6:
            continue
        for v in range(1 if tier == 'quick' else 4):
            yield {'stream': hashlib.sha256(b'c20/steer/%d/%d' % (L, v)).hexdigest()[:16], 'lens': _lens_for(L, v + L), 'L': L}
    for L in (127, 128, 129):                                  # the SHA-512 block size: three more layouts each in the quick tier
        for v in range(1, 4):
            yield {'stream': hashlib.sha256(b'c20/steer-b/%d/%d' % (L, v)).hexdigest()[:16], 'lens': _lens_for(L, v), 'L': L}


def enum_derive(tier):
    n = 8 if tier == 'quick' else 56
    for i in range(n):
        form = ('iter', 'tuple', 'generator', 'list')[(i // 2) % 4]
        if i % 2 == 0:
            yield {'i': i, 'form': form}
        else:
            h = hashlib.sha512(b'c20/derive/%d' % i).digest()
            yield {'idx': [int.from_bytes(h[2 * j:2 * j + 2], 'big') % 2048 for j in range(24)], 'form': form}
    # fixed words whose joined phrase has a designed byte length (the HMAC key of the derivation is the phrase: block size and around)
    for i, L in enumerate((127, 128, 129) if tier == 'quick' else (95, 111, 112, 119, 120, 127, 128, 129, 130, 143, 144, 191, 192, 215)):
        yield {'lens': _lens_for(L, i), 'pick': hashlib.sha256(b'c20/derive-len/%d' % L).hexdigest()[:16], 'L': L, 'form': 'list'}


def classify_mnemonic(case):
    yield 'source=' + ('mnemonic_new()' if 'i' in case else 'mnemonic_new()-with-steered-word-lengths' if 'stream' in case and 'lens' in case else
                       'mnemonic_new()-with-supplied-random-stream' if 'stream' in case else 'fixed-words-of-designed-lengths' if 'lens' in case else
                       'fixed-word-indices' if 'idx' in case else 'given-words')
    if 'lens' in case:
        L = sum(case['lens']) + len(case['lens']) - 1
        yield 'phrase-bytes=' + ('<111' if L < 111 else '111..126' if L < 127 else str(L) if L <= 129 else '130..191' if L < 192 else '>=192')


SUBCHECKS = [
    Sub('channel-grid', check_channel, enum=enum_channel, classify=classify_channel, nontrivial=nt_channel, shards=(8, 16),
        note='deterministic seeds x id modes (chan, lt, lt-equal, raw-equal, raw one-byte-apart at 3 positions in both orders) '
             'x (a,b),(b,a),(a,a) x plaintext length boundaries'),
    Sub('channel-large-payloads', check_channel, enum=enum_channel_large, classify=classify_channel, nontrivial=lambda c: True, shards=(16, 16),
        case_cpu_s=120, note='payload lengths 2^k-1, 2^k, 2^k+1 for k = 12..21 (thorough ..24), 3*2^20-1, 5*65536+3, 10^6'),
    Sub('channel-random', check_channel, strategy=strat_channel, classify=classify_channel, nontrivial=nt_channel,
        n=(1000, 20000), shards=(8, 32)),
    Sub('sign-all-bit-flips', check_sign, enum=enum_sign_bits, classify=classify_sign, shards=(8, 16),
        note='each of the 512 signature bits (and each key bit twice) flipped, 1 quick / 8 thorough fixed key+message'),
    Sub('sign-random', check_sign, strategy=strat_sign, classify=classify_sign, n=(1500, 30000), shards=(8, 32)),
    Sub('mnemonic-new-valid', check_mnemonic_valid, enum=enum_mnemonic_valid, classify=classify_mnemonic,
        nontrivial=lambda c: False, shards=(10, 32), case_cpu_s=120.0,
        note='fresh mnemonic_new() draws (os.urandom inside the library): 20 quick / 500 thorough; draws from supplied streams (edge words, '
             'stuck source); draws steered to a designed phrase byte length (quick 47 cases incl. 111..113, 127..129, 191..193; thorough all 95..215 x 4 layouts)'),
    Sub('mnemonic-derive', check_derive, enum=enum_derive, classify=classify_mnemonic, nontrivial=lambda c: False,
        shards=(5, 25), case_cpu_s=180.0,
        note='mnemonic_to_wallet_key twice + reference derivation (3 x PBKDF2 100000 rounds per case): 8 quick / 56 thorough; the second call takes the words as tuple / iterator / generator; '
             'plus fixed words whose joined phrase is 127 / 128 / 129 bytes (thorough: 14 boundary lengths)'),
]

# the same generated cases, several at a time, checked by threads that run at the same time (core.run_overlapping): per-call state
# kept in a place two calls share shows only there
SUBCHECKS.append(__import__('harness.core', fromlist=['overlapped']).overlapped(next(s for s in SUBCHECKS if s.name == 'channel-random'), k=3, n=(30, 600), name='two-threads-channel'))
SUBCHECKS.append(__import__('harness.core', fromlist=['overlapped']).overlapped(next(s for s in SUBCHECKS if s.name == 'sign-random'), k=3, n=(40, 1000), name='two-threads-sign'))


# --------------------------------------------------------------------------------------------------
# narrow windows: nothing but library calls, made by several threads in tight loops (core.hammer). Per-call scratch state kept at
# module or class level (a candidate buffer that is cleared at the start of every attempt, a reused cipher / hash object) is correct
# in every single-threaded history and shows only when two calls are inside the function at the same time.

def _mnemonic_verdict(keys, w):
    """'valid' or a description (with the words, so that the detail of a failure replays as a {'words': [...]} case)"""
    if not isinstance(w, (list, tuple)) or not all(isinstance(x, str) for x in w):
        return f'not a list of words: {w!r}'[:300]
    w = list(w)
    ok, v = call(keys.mnemonic_is_valid, list(w))
    if not ok or not v:
        return f'rejected by mnemonic_is_valid ({len(w)} words): ' + ' '.join(w)
    if not refkeys.mnemonic_valid(w):
        return f'invalid by the documented rule ({len(w)} words): ' + ' '.join(w)
    return 'valid'


def check_mnemonic_threads(case):
    from harness.core import hammer
    from pytoniq_core.crypto import keys
    # history first, one thread: a mnemonic handed out stays what it was when the next one is generated (the caller owns the list),
    # and the caller's editing of a returned list does not reach the next draw
    ok, m1 = call(keys.mnemonic_new)
    if not ok or _mnemonic_verdict(keys, m1) != 'valid':
        return None                                   # fails without any history: reported by mnemonic-new-valid
    snap = list(m1)
    ok, m2 = call(keys.mnemonic_new)
    if not ok:
        return None
    if list(m1) != snap:
        return Fail('mnemonic_new/earlier-result-changed-by-a-later-call', f'first: {" ".join(snap)}; after a second mnemonic_new() the first list reads {" ".join(map(str, m1))}')
    if m2 is m1:
        return Fail('mnemonic_new/earlier-result-changed-by-a-later-call', 'the second call returned the list object of the first')
    try:
        m2.clear() if case['edit'] == 'clear' else m2.reverse() if case['edit'] == 'reverse' else m2.append('abandon')
    except Exception:
        pass
    ok, m3 = call(keys.mnemonic_new)
    if ok and (v := _mnemonic_verdict(keys, m3)) != 'valid':
        return Fail('mnemonic/generated-mnemonic-invalid-after-the-caller-edited-an-earlier-result', f'edit={case["edit"]}: {v}')
    fixed, fixed2 = tuple(snap), tuple(m3) if ok else tuple(snap[::-1])
    exp = {w: refkeys.wallet_key(list(w)) for w in (fixed, fixed2)}

    def derive(w):
        k = keys.mnemonic_to_wallet_key(list(w))
        got = (bytes(k[0]), bytes(k[1]))
        return 'documented key' if got == exp[w] else f'other key {got[0].hex()} for: {" ".join(w)}'
    table = {
        'new': ('mnemonic_new-then-validity', lambda: _mnemonic_verdict(keys, keys.mnemonic_new())),
        'valid': ('mnemonic_is_valid', lambda: bool(keys.mnemonic_is_valid(list(fixed))) and bool(keys.mnemonic_is_valid(list(fixed2)))),
        'derive': ('mnemonic_to_wallet_key', lambda: derive(fixed)),
        'derive2': ('mnemonic_to_wallet_key', lambda: derive(fixed2)),
    }
    calls = [table[k] for k in case['mix']]
    return hammer(calls, threads=case['threads'], rounds=case['rounds'], same=lambda a, b: a == b)


def enum_mnemonic_threads(tier):
    mixes = [(['new'], 2, 3), (['new'], 4, 2), (['new', 'valid'], 3, 2), (['new', 'derive'], 2, 2), (['new', 'new', 'valid', 'derive2'], 4, 1),
             (['derive', 'derive2', 'valid'], 3, 1), (['new'], 3, 2), (['new', 'valid', 'new'], 2, 1)]
    for i in range(6 if tier == 'quick' else len(mixes) * 6):
        mix, threads, rounds = mixes[i % len(mixes)]
        yield {'i': i, 'mix': mix, 'threads': threads, 'rounds': rounds, 'edit': ('clear', 'reverse', 'append')[i % 3]}


def check_crypto_hammer(case):
    """signing, verifying, encrypting and decrypting with a few fixed keys / channels, every call a function of its arguments alone
    (Ed25519 signatures and the channel's AES-CTR keyed by the plaintext checksum are deterministic)"""
    from harness.core import hammer
    from pytoniq_core.crypto.signature import verify_sign, sign_message
    from pytoniq_core.crypto.ciphers import Client, Server, AdnlChannel, get_signature
    from nacl.signing import SigningKey
    calls = []
    for s in case['signers']:
        seed, m = bytes.fromhex(s['seed']), bytes.fromhex(s['msg'])
        pk, sk = refkeys.ed_keypair(seed)
        ok, sig = call(sign_message, m, sk)
        if not ok or not isinstance(sig, (bytes, bytearray)):
            continue
        sig = bytes(sig)
        calls.append(('sign_message', lambda m=m, sk=sk: bytes(sign_message(m, sk))))
        calls.append(('get_signature', lambda m=m, seed=seed: bytes(get_signature(SigningKey(seed), m))))
        calls.append(('Client.sign', lambda m=m, seed=seed: bytes(Client(seed).sign(m))))
        calls.append(('verify_sign/valid', lambda pk=pk, m=m, sig=sig: bool(verify_sign(pk, m, sig))))
        calls.append(('verify_sign/other-message', lambda pk=pk, m=m, sig=sig: bool(verify_sign(pk, m + b'\x00', sig))))
    for c in case['channels']:
        a, b = bytes.fromhex(c['a']), bytes.fromhex(c['b'])
        p = bytes.fromhex(c['p'])
        pub_a, pub_b = refkeys.ed_keypair(a)[0], refkeys.ed_keypair(b)[0]

        def build(a=a, b=b, pub_a=pub_a, pub_b=pub_b):
            ca, sb = Client(a), Server('10.0.0.2', 2, pub_b)
            cb, sa = Client(b), Server('10.0.0.1', 1, pub_a)
            return (AdnlChannel(ca, sb, ca.get_key_id(), sb.get_key_id()), AdnlChannel(cb, sa, cb.get_key_id(), sa.get_key_id()))
        ok, chans = call(build)
        if not ok:
            continue
        cha, chb = chans
        ok, pkt = call(cha.encrypt, p)
        if not ok or not isinstance(pkt, (bytes, bytearray)) or len(pkt) < 64:
            continue
        pkt = bytes(pkt)
        calls.append(('AdnlChannel.encrypt', lambda cha=cha, p=p: bytes(cha.encrypt(p))))
        calls.append(('AdnlChannel.decrypt', lambda chb=chb, pkt=pkt: bytes(chb.decrypt(pkt[64:], pkt[32:64]))))
        calls.append(('AdnlChannel.encrypt', lambda chb=chb, p=p: bytes(chb.encrypt(p[::-1]))))
        calls.append(('AdnlChannel()', lambda build=build, p=p: bytes(build()[0].encrypt(p))))
    if len(calls) < 2:
        return None
    return hammer(calls, threads=4, rounds=case.get('rounds', 5))


def strat_crypto_hammer(tier):
    signer = st.builds(lambda s, m: {'seed': s.hex(), 'msg': m.hex()}, _seed, _msg)
    chan = st.builds(lambda sp, p: {'a': sp[0].hex(), 'b': sp[1].hex(), 'p': p.hex()}, _seed_pair, _plain)
    return st.builds(lambda ss, cs: {'signers': ss, 'channels': cs}, st.lists(signer, min_size=1, max_size=2), st.lists(chan, min_size=1, max_size=2))


SUBCHECKS.append(Sub('two-threads-mnemonics', check_mnemonic_threads, enum=enum_mnemonic_threads, nontrivial=lambda c: False, shards=(6, 16),
                     case_cpu_s=240.0, classify=lambda c: ['calls=' + '+'.join(c['mix']), 'threads=%d' % c['threads']],
                     note='mnemonic_new (validity of every result by the library and by the documented rule) / mnemonic_is_valid / '
                          'mnemonic_to_wallet_key (against the documented derivation) called by 2-4 threads at the same time (core.hammer), after a '
                          'one-thread history: draw, draw again, edit the second list, draw - earlier results unchanged, later ones valid'))
SUBCHECKS.append(Sub('two-threads-crypto-hammer', check_crypto_hammer, strategy=strat_crypto_hammer, nontrivial=lambda c: True, n=(10, 1500), shards=(2, 16),
                     case_cpu_s=120.0, classify=lambda c: ['signers=%d' % len(c['signers']), 'channels=%d' % len(c['channels'])],
                     note='sign_message / get_signature / Client.sign / verify_sign / AdnlChannel construction, encrypt, decrypt on 1-2 keys and 1-2 '
                          'channel pairs by 4 threads in tight loops; oracle = what each call returns alone'))
