"""
C19 — work is bounded by the size of the input; every parser terminates.

Instrument: harness/opcount.py counts Python function calls executed inside pytoniq_core (sys.setprofile), aborting
at the bound. Secondary signal: per-case CPU ceiling (ITIMER_VIRTUAL, 10 s) — for this property an expiry IS a violation.
Bounds (generous linear bounds; measured constants on the repaired tree are ~6x below them — see evidence 'classes'):
  to_boc of a DAG with n distinct cells, e references:      calls <= 40*(n+e) + 200
  from_boc of its serialisation:                             calls <= 150*(n+e) + 400
  hashing the DAG bottom-up through Builder:                 calls <= 150*(n+e) + 400
  BoC parser on ANY byte string b (inflated count fields):   calls <= 200*len(b) + 600
  dictionary parse of a cell tree with u unfolded nodes:     calls <= 120*u + 400  (result has one entry per path)
  TL deserialize of ANY byte string b:                       calls <= 150*len(b) + 3000
  dictionary (k entries, 2k-1 cells) whose values reference shared DAGs: calls <= 120*(2k-1) + 60*k + 400 - the DAG under the
                                                              values is not the parser's business
Second instrument (two-thread sub-checks): source LINES executed inside the library by the measuring thread (sys.settrace):
  to_boc <= 80*(n+e)+500, order (twice) <= 50*(n+e)+300, from_boc <= 450*(n+e)+1500, building <= 300*(n+e)+1500 (measured: 13 / 15 /
  75 / 45 per n+e); parsers: 10 lines per call of the call bound.
Dimensions besides the input:
  * logging configuration: the shared-DAG sub-checks run every case twice - interpreter default, and everything logged and
    rendered (`logging_config`) - so a lazily formatted log argument that prints a cell tree (once per path) is seen;
  * a second thread: `max-sharing-dags-while-another-thread-uses-the-library` / `parsers-while-another-thread-parses` measure the
    work of one thread while a real second thread makes complete small library calls at scheduled points (after every k-th line
    of the measured call; also free-running). Per-call state kept in a class / module attribute that another call resets
    (a visited set, a memo) costs nothing but work - the bytes stay right - and only under this schedule.
Not asserted: wall-clock times; what the calls return under threads or logging (C03/C04/C09 do that).
"""
from hypothesis import strategies as st
from harness.core import Sub, Fail, call, exc_sig, BudgetExceeded
from harness.gen import dag, boccases
from harness.ref import refcell as rc, refboc
from harness import opcount


def counted(f, budget, label):
    """opcount.counted, plus: a BudgetExceeded that something between the library and us swallowed (a logging handler that renders
    a record guards itself with `except Exception`) still ends the case - the counter remembers that it fired"""
    import sys
    import resource
    if not _MEM['limited']:
        # a table sized by a count field must not take the machine down before it is noticed: cap the address space of this worker
        try:
            soft, hard = resource.getrlimit(resource.RLIMIT_AS)
            cap = 6 << 30
            resource.setrlimit(resource.RLIMIT_AS, (cap if hard == resource.RLIM_INFINITY else min(cap, hard), hard))
        except (ValueError, OSError):
            pass
        _MEM['limited'] = True
    rss0 = _peak_rss_kb(reset=True)
    c = opcount.Counter(budget, label)
    sys.setprofile(c)
    try:
        try:
            v = f()
        except BudgetExceeded:
            raise
        except RecursionError as e:
            return False, e, c.n
        except Exception as e:
            if c.exceeded:
                raise BudgetExceeded(label)
            _memory_bound(rss0, label)
            return False, e, c.n
        if c.exceeded:
            raise BudgetExceeded(label)
        _memory_bound(rss0, label)
        return True, v, c.n
    finally:
        sys.setprofile(None)


_MEM = {'limited': False}
MEM_BOUND_KB = 192 * 1024


def _memory_bound(rss0, label):
    """memory is work too: no call measured here (inputs of at most a few hundred KB, DAGs of a few thousand cells) may raise the peak
    resident size of the process by more than 192 MB - a table allocated from a count field read from the input does"""
    grown = _peak_rss_kb() - rss0
    if grown > MEM_BOUND_KB:
        raise BudgetExceeded(f'memory/{label}')


def _peak_rss_kb(reset=False):
    """peak resident set size of this process in KB. With reset=True the kernel's high-water mark is first set back to the current
    size (writing 5 to /proc/self/clear_refs), so that the same case measures the same growth when it is replayed or shrunk in a
    process that has already been large once; without /proc the lifetime maximum is used (first occurrence only)."""
    if reset:
        try:
            with open('/proc/self/clear_refs', 'w') as f:
                f.write('5')
        except OSError:
            pass
    try:
        with open('/proc/self/status') as f:
            for line in f:
                if line.startswith('VmHWM:'):
                    return int(line.split()[1])
    except OSError:
        pass
    import resource
    return resource.getrusage(resource.RUSAGE_SELF).ru_maxrss

RULE = ('DAG cases = maximal-sharing shapes (doubling ladders of height 1..200, lattices, random DAGs with repeated refs); '
        'parser cases = valid encodings whose count/length fields are rewritten to huge values, and random byte strings with '
        'valid magic; dictionaries (plain / augmented, 1..16 entries) whose values reference the top of a doubling ladder of height 16..600; '
        'the sharing shapes and the dictionary cases are run under the default logging configuration and with every record rendered; '
        'two-thread cases = (shape, measured call, partner call kind, hand-over period k): a second thread makes one small library call '
        'after every k-th line the measured call executes (k = 1..50, or free-running), work counted in lines of the measuring thread. '
        'non-trivial = sharing factor (paths/cells) >= 4, or a rewritten count field, or a two-thread / shared-value case; distinct = distinct case')
ASSUMPTIONS = ['call counts via sys.setprofile / line counts via sys.settrace restricted to files under pytoniq_core/', 'bounds are linear with generous constants',
               'a hand-over to the second thread inside the trace function is an ordinary thread switch as far as the library can tell']


def _ne(cells_root):
    order = rc.topo([cells_root])
    return len(order), sum(len(c.refs) for c in order)


def check_dag(case):
    from pytoniq_core.boc.cell import Cell
    cells = dag.build_ref(case['spec'])
    n, e = _ne(cells[-1])
    ok, lib, calls_build = counted(lambda: dag.lib_from_ref(cells, 'builder'), 150 * (len(cells) * 5) + 400, 'build-hash')
    if not ok:
        return Fail('construction-raises', f'{exc_sig(lib)}: {lib!r}')
    root = lib[-1]
    for (idx, crc, cache) in ((0, 0, 0), (1, 1, 1)):
        ok, boc, calls = counted(lambda: root.to_boc(bool(idx), bool(crc), bool(cache)), 40 * (n + e) + 200, 'to_boc')
        if not ok:
            return Fail(f'to_boc-raises/{type(boc).__name__}', f'{exc_sig(boc)}: {boc!r} (n={n} e={e})')
        ok, parsed, calls2 = counted(lambda: Cell.one_from_boc(boc), 150 * (n + e) + 400, 'from_boc')
        if not ok:
            return Fail(f'from_boc-raises/{type(parsed).__name__}', f'{exc_sig(parsed)}: {parsed!r}')
        if parsed.hash != cells[-1].repr_hash():
            return Fail('roundtrip-hash', '')
        # re-serialising the parsed (fresh objects, no shared identity) tree
        ok, boc2, calls3 = counted(lambda: parsed.to_boc(bool(idx), bool(crc), bool(cache)), 40 * (n + e) + 200, 'to_boc')
        if not ok:
            return Fail(f'to_boc-raises/{type(boc2).__name__}', f'{exc_sig(boc2)}: parsed tree')
    # ordering helper called directly, twice (history independence is C08; here: bounded work)
    ok, od, calls4 = counted(lambda: (root.order(), root.order()), 40 * (n + e) + 200, 'order')
    if not ok:
        return Fail(f'order-raises/{type(od).__name__}', f'{exc_sig(od)}')
    return None


def check_boc_bytes(case):
    from pytoniq_core.boc.cell import Cell
    if 'raw' in case:
        data = bytes.fromhex(case['raw'])
    else:
        cells = dag.build_ref(case['spec'])
        data = bytearray(refboc.encode([cells[-1]], magic=case.get('magic', 'generic'), has_idx=case['idx'], has_crc=False,
                                       size=case['size'], off_bytes=case['off']))
        size, off = case['size'], case['off']
        fields = {'cells': (6, size), 'roots': (6 + size, size), 'absent': (6 + 2 * size, size), 'tot': (6 + 3 * size, off),
                  'off_bytes': (5, 1), 'flags_size': (4, 1)}
        for name, val in case['rewrite']:
            o, w = fields[name]
            data[o:o + w] = (val % (256 ** w)).to_bytes(w, 'big')
        data = bytes(data)
    ok, res, calls = counted(lambda: Cell.from_boc(data), 200 * len(data) + 600, 'from_boc-bytes')
    return None  # raising or returning are both fine here; only the bound matters


def check_boc_invalid_top(case):
    """a bag whose cells form a maximal-sharing ladder, topped by a cell the parser has to REFUSE (an exotic type byte with the
    wrong number of references / an unknown type / a Merkle cell whose stored hash is wrong / too short for an exotic cell):
    refusing it costs work bounded by the input like everything else - whatever is done on the error path (messages included)
    must not walk the shared DAG once per path"""
    from pytoniq_core.boc.cell import Cell
    h = case['h']
    spec = ladder(h)
    top_bits = format(case['type'], '08b') + dag.expand_bits(case['nbits'], 2, h)
    spec.append({'k': 'o', 'b': top_bits, 'r': [h] * case['nrefs']})
    cells = dag.build_ref(spec)
    data = bytearray(refboc.encode([cells[-1]], has_idx=False, has_crc=False, size=1, off_bytes=2))
    pos = 4 + 1 + 1 + 3 + 2 + 1                  # magic, flags, off_bytes, cells/roots/absent, tot_cells_size, root index
    if data[pos] != case['nrefs']:
        raise AssertionError('root cell not where expected (harness)')
    data[pos] |= 8                                # the exotic flag of d1: the first data byte now is the cell type
    data = bytes(data)
    for f, nm in ((lambda: Cell.from_boc(data), 'from_boc-bytes'), (lambda: Cell.one_from_boc(data.hex()), 'from_boc-bytes')):
        ok, res, calls = counted(f, 200 * len(data) + 600, nm)
    # the same cell built directly on top of library cells (Builder(type_=t) ... end_cell())
    from pytoniq_core.boc.builder import Builder
    lib = dag.lib_from_ref(cells[:-1], 'builder')

    def direct():
        b = Builder(type_=case['type'] if case['type'] < 128 else case['type'] - 256).store_bits(top_bits)
        for _ in range(case['nrefs']):
            b.store_ref(lib[-1])
        return b.end_cell()
    ok, res, calls = counted(direct, 200 * len(data) + 600, 'build-hash')
    return None                                   # raising is the expected outcome; only the bound matters


def enum_boc_invalid_top(tier):
    for h in (20, 25, 30, 40, 60, 120, 250):
        for t, nrefs, nbits in ((1, 1, 272), (1, 2, 272), (1, 4, 16), (2, 1, 256), (2, 2, 0), (3, 2, 272), (3, 1, 272), (3, 0, 272),
                                (4, 1, 544), (4, 2, 544), (4, 3, 544), (9, 1, 8), (0, 2, 8), (255, 2, 64), (3, 1, 0), (4, 2, 8)):
            yield {'h': h, 'type': t, 'nrefs': nrefs, 'nbits': nbits}


def ladder(h, width=2, leaf=None):
    spec = [leaf or {'k': 'o', 'b': [8, 2, h], 'r': []}]
    for k in range(1, h + 1):
        spec.append({'k': 'o', 'b': [k % 13, 2, k], 'r': [k - 1] * width})
    return spec


def lattice(h):
    # two nodes per level, each referencing both nodes of the level below: 2^h paths, 2h cells
    spec = [{'k': 'o', 'b': [4, 2, 1], 'r': []}, {'k': 'o', 'b': [4, 2, 2], 'r': []}]
    for lv in range(1, h):
        a, b = 2 * lv - 2, 2 * lv - 1
        spec.append({'k': 'o', 'b': [5, 2, lv * 2], 'r': [a, b, a, b]})
        spec.append({'k': 'o', 'b': [5, 2, lv * 2 + 1], 'r': [b, a]})
    spec.append({'k': 'o', 'b': [1, 1, 0], 'r': [len(spec) - 2, len(spec) - 1]})
    return spec


def enum_sharing(tier):
    hs = list(range(1, 41)) + [60, 100, 200] + ([400, 1000] if tier == 'thorough' else [])
    for h in hs:
        yield {'spec': ladder(h), 'shape': 'ladder'}
        yield {'spec': ladder(h, 4), 'shape': 'ladder4'}
        yield {'spec': lattice(h), 'shape': 'lattice'}
        if h <= 60:
            # the same sharing above a cell of non-zero level (a pruned branch of mask 1 / 3 / 7, a library cell): every cell of
            # the ladder then has level > 0 - sharing must be recognised for such cells too
            for m in (1, 3, 7):
                yield {'spec': ladder(h, leaf={'k': 'P', 'm': m, 's': '%08x' % h, 'd': [0, 1, 2]}), 'shape': f'ladder-on-pruned-mask{m}'}
            yield {'spec': ladder(h, leaf={'k': 'l', 's': '%08x' % h}), 'shape': 'ladder-on-library-cell'}


def strat_dag(tier):
    return st.fixed_dictionaries({'spec': st.one_of(dag.st_ord_dag(max_nodes=60, max_len=32), dag.st_exotic_dag(max_nodes=30, max_len=32)),
                                  'shape': st.just('random')})


# 2^25..2^28: counts a table of that many entries can still be allocated for (0.25..2 GB) - too big to go unnoticed, too small to fail at once
BIG = [2 ** 16 - 1, 2 ** 24 - 1, 2 ** 31, 2 ** 32 - 1, 2 ** 63, 2 ** 64 - 1, 255, 256, 65536, 2 ** 25, 2 ** 26, 2 ** 27 + 5, 2 ** 28]


def check_tl_user_schema(case):
    """schemas the USER registers (ordinary TL, not the bundled files): vectors whose elements can take no bytes at all (a bare
    constructor without fields, one whose only field is an absent optional) - the count read from the input must not drive the work"""
    from pytoniq_core.tl.generator import TlRegistrator, TlSchemas
    reg = TlRegistrator()
    schemas = TlSchemas([reg.register(t) for t in (
        'c19t.tick = c19t.Tick;',
        'c19t.maybe flags:# x:flags.0?int = c19t.Maybe;',
        'c19t.ticks id:int ticks:(vector c19t.tick) = c19t.Ticks;',
        'c19t.maybes id:int items:(vector c19t.maybe) = c19t.Maybes;',
        'c19t.nested id:int rows:(vector c19t.ticks) = c19t.Nested;',
        'c19t.ints id:int values:(vector int) = c19t.Ints;')])
    host = schemas.get_by_name(case['host'])
    data = host.little_id() + (7).to_bytes(4, 'little') + (case['count'] % 2 ** 32).to_bytes(4, 'little') + bytes.fromhex(case['tail'])
    counted(lambda: schemas.deserialize(data), 150 * len(data) + 3000, 'tl-deserialize/user-schema')
    return None          # raising or returning are both fine; only the bound matters


def enum_tl_user_schema(tier):
    for host in ('c19t.ticks', 'c19t.maybes', 'c19t.nested', 'c19t.ints'):
        for tail in ('', '00000000', '0000000000000000', 'ffffffff' * 3):
            for count in (0, 1, 3, 4, 5, 255, 2 ** 16, 2 ** 20, 2 ** 24 - 1, 2 ** 24, 2 ** 31 - 1, 2 ** 31, 2 ** 32 - 1):
                yield {'host': host, 'tail': tail, 'count': count}


def enum_count_fields(tier):
    specs = [[{'k': 'o', 'b': '1010', 'r': []}], [{'k': 'o', 'b': '11', 'r': []}, {'k': 'o', 'b': '0101', 'r': [0, 0]}]]
    for si, spec in enumerate(specs):
        for idx in (False, True):
            for size in (1, 2, 3, 4):
                for off in (1, 4):
                    for name in ('cells', 'roots', 'absent', 'tot'):
                        width = 8 * (off if name == 'tot' else size)
                        vals = set()
                        for k in range(3, min(width, 40) + 1):
                            vals.update((2 ** k - 1, 2 ** k, 2 ** k + 3))
                        for v in sorted(x for x in vals if x < 2 ** width):
                            if tier == 'quick' and (si + v.bit_length() + size) % 2 and v < 2 ** 20:
                                continue
                            yield {'spec': spec, 'idx': idx, 'size': size, 'off': off, 'rewrite': [[name, v]], 'magic': 'generic'}


def strat_boc_bytes(tier):
    rewritten = st.fixed_dictionaries({
        'spec': dag.st_ord_dag(max_nodes=6, max_len=24), 'idx': st.booleans(), 'size': st.integers(1, 4), 'off': st.integers(1, 8),
        'rewrite': st.lists(st.one_of(st.tuples(st.sampled_from(['cells', 'roots', 'absent', 'tot']), st.sampled_from(BIG)),
                                      st.tuples(st.just('off_bytes'), st.sampled_from([0, 0, 1, 9, 255])),
                                      st.tuples(st.just('flags_size'), st.sampled_from([0x80, 0x84, 0xC1, 0xE7, 0x00, 0x08]))).map(list),
                            min_size=1, max_size=4),
        'magic': st.sampled_from(['generic', 'generic', 'idx', 'idx_crc'])})
    magic = st.sampled_from(['b5ee9c72', '68ff65f3', 'acc3a728'])
    raw = st.builds(lambda m, fl, rest: {'raw': m + '%02x' % fl + rest.hex()}, magic, st.integers(0, 255), st.binary(min_size=0, max_size=120))
    return st.one_of(rewritten, rewritten, raw)


def _paths(spec):
    p = [1] * len(spec)
    for k, nd in enumerate(spec):
        ch = nd.get('r', [])
        ch = [ch] if isinstance(ch, int) else ch
        if nd['k'] == 'p':
            ch = []
        if ch:
            p[k] = 1 + sum(p[c] for c in ch)
    return p[-1]


def classify(case):
    if 'spec' in case and 'rewrite' not in case:
        s = _paths(case['spec']) // max(1, len(case['spec']))          # integers: 2^1000 paths do not fit a float
        yield 'sharing-factor ' + ('<4' if s < 4 else '4..1e3' if s < 10 ** 3 else '1e3..1e9' if s < 10 ** 9 else '>1e9')
        yield 'shape=' + case.get('shape', '?')
    elif 'rewrite' in case:
        for name, _ in case['rewrite']:
            yield 'rewrite=' + name
    else:
        yield 'raw-bytes'


def nt(case):
    if 'rewrite' in case:
        return True
    if 'raw' in case:
        return len(case['raw']) > 12
    return _paths(case['spec']) >= 4 * max(1, len(case['spec']))


# --------------------------------------------------------------------------------------------------
# TL parser: work bounded by the input length, not by a count/length field read from it

TL_BIG = [0xffffffff, 0x7fffffff, 0x80000000, 0x10000, 0x1000000, 0x00fffffe, 0xfffffffe]


def _tl_bytes(case):
    from harness.props import c14
    if 'raw' in case:
        return bytes.fromhex(case['raw'])
    info = c14.new_info()
    ref, _ = c14.mat_obj(case['ctor'], case['v'], info)
    pieces = [[k, b] for k, b in c14.SCH.pieces(case['ctor'], ref)]
    cand = [i for i, (k, b) in enumerate(pieces) if k == 'vector-count' or k.endswith('-prefix') or k in ('nat', 'int')]
    for sel, val in case['rewrite']:
        if not cand:
            break
        i = cand[sel % len(cand)]
        k, b = pieces[i]
        if k.endswith('-prefix'):
            pieces[i][1] = b'\xfe' + (val & 0xffffff).to_bytes(3, 'little') if val & 1 else bytes([val % 254])
        else:
            pieces[i][1] = (val & 0xffffffff).to_bytes(4, 'little')
    data = b''.join(b for _, b in pieces)
    cut = case.get('cut')
    return data[:cut] if cut is not None else data


def check_tl_bytes(case):
    from harness.props import c14
    g, schemas = c14._schemas()
    data = _tl_bytes(case)
    counted(lambda: schemas.deserialize(data), 150 * len(data) + 3000, 'tl-deserialize')
    return None      # raising or returning are both fine here; only the bound matters


def _tl_str(b):
    n = len(b)
    head = bytes([n]) if n < 254 else b'\xfe' + n.to_bytes(3, 'little')
    return head + b + b'\x00' * (-(len(head) + n) % 4)


def enum_tl_nesting(tier):
    """objects nested through `bytes` fields d levels deep, each level's payload = [the inner object][k trailing bytes that are no
    object] / = [inner][inner] / = the inner object alone: the parser looks into such payloads (auto-deserialisation); however it
    walks them, the work stays linear in the input - a payload is not parsed again for every level above it"""
    from harness.props import c14
    hosts = [n for n in ('adnl.message.custom', 'liteServer.query', 'adnl.message.answer') if n in c14.SUPPORTED]
    for host in hosts[:2]:
        cid = c14.SCH.ctor(host).id_le
        args = c14.SCH.ctor(host).args
        if [a.type for a in args] != [('prim', 'bytes')]:
            continue
        for depth in (8, 12, 16, 20, 24, 30, 40, 60):
            for shape in ('trailing-junk', 'twice', 'alone', 'leading-junk'):
                inner = cid + _tl_str(b'\x01\x02\x03')
                for _ in range(depth):
                    if shape == 'trailing-junk':
                        payload = inner + b'\xde\xad\xbe\xef'
                    elif shape == 'twice':
                        payload = inner + inner if len(inner) < 4000 else inner
                    elif shape == 'leading-junk':
                        payload = b'\xde\xad\xbe\xef' + inner
                    else:
                        payload = inner
                    inner = cid + _tl_str(payload)
                if len(inner) <= 20000:
                    yield {'raw': inner.hex(), 'shape': f'{shape}/depth={depth}'}


def strat_tl(tier):
    from harness.props import c14
    with_counts = [n for n in c14.SUPPORTED if any(a.type[0] == 'vector' or a.type in (('prim', 'bytes'), ('prim', 'string'))
                                                   for a in c14.SCH.ctor(n).args)]

    @st.composite
    def rewritten(draw):
        name = draw(st.sampled_from(with_counts))
        tree = c14.gen_obj(c14.HypChooser(draw), name, draw(st.sampled_from([1, 2, 3])), False, bit31=False)
        rw = draw(st.lists(st.tuples(st.integers(0, 63), st.sampled_from(TL_BIG)).map(list), min_size=1, max_size=3))
        return {'ctor': name, 'v': tree, 'rewrite': rw, 'cut': draw(st.one_of(st.none(), st.integers(4, 200)))}

    ids = [c14.SCH.ctor(n).id_le.hex() for n in with_counts]
    raw = st.builds(lambda i, body: {'raw': i + body.hex()}, st.sampled_from(ids),
                    st.one_of(st.binary(max_size=64),
                              st.lists(st.sampled_from([b'\xff\xff\xff\xff', b'\xfe\xff\xff\xff', b'\x00\x00\x00\x00', b'\xff\xff\xff\x7f',
                                                        b'\x01\x00\x00\x00', b'\x00\x00\x01\x00']), max_size=24).map(b''.join)))
    return st.one_of(rewritten(), rewritten(), raw)


def classify_tl(case):
    if 'raw' in case:
        yield 'raw-after-ctor-id'
    else:
        yield 'rewritten-fields=%d' % len(case['rewrite'])
        if case.get('cut') is not None:
            yield 'truncated'


# --------------------------------------------------------------------------------------------------
# dictionary parser: work bounded by the unfolded size of the cell tree it is given

def _dict_tree(case):
    """reference cells of a binary cell tree of the given height; every node carries `label` bits (arbitrary - they are
    read as a hashmap label, valid or not) and, unless it is a leaf, two references (the same child twice when shared)"""
    nodes = []
    for nd in case['nodes']:
        refs = [nodes[i] for i in nd['r']]
        nodes.append(rc.RCell(nd['b'], refs))
    return nodes[-1]


def _unfolded(case):
    u = []
    for nd in case['nodes']:
        u.append(1 + sum(u[i] for i in nd['r']))
    return u[-1]


def check_dict_tree(case):
    from pytoniq_core.boc.slice import Slice
    from pytoniq_core.boc.hashmap.parse import parse_hashmap
    from pytoniq_core.boc.hashmap import HashMap
    root = _dict_tree(case)
    u = _unfolded(case)
    cell = dag.lib_from_rcell(root)
    for f in (lambda: parse_hashmap(cell.begin_parse(), case['key_len']),
              lambda: HashMap.parse(cell.begin_parse(), case['key_len']),
              lambda: cell.begin_parse().load_hashmap_aug(case['key_len'], lambda s: s, lambda s: 0)
              ):
        counted(f, 120 * u + 400, 'dict-parse')
    return None


@st.composite
def _st_dict_tree(draw):
    n = draw(st.integers(1, 24))
    nodes = []
    bits = st.text('01', min_size=0, max_size=24)
    for k in range(n):
        if k == 0 or draw(st.integers(0, 5)) == 0:
            r = []
        else:
            a = draw(st.integers(0, k - 1))
            b = a if draw(st.booleans()) else draw(st.integers(0, k - 1))
            r = [a, b]
        # label bits: bias to "short label of length 0" (0 0), "same" (11 v n) and "long" (10 n ...) forms
        lab = draw(st.sampled_from(['00', '0', '11', '10', ''])) + draw(bits)
        nodes.append({'b': lab, 'r': r})
    return {'nodes': nodes, 'key_len': draw(st.sampled_from([1, 2, 3, 8, 16, 32, 64, 256, 1023]))}


def _cap_unfolded(case):
    return _unfolded(case) <= 20000


def strat_dict(tier):
    return _st_dict_tree().filter(_cap_unfolded)


def enum_dict_ladders(tier):
    # valid dictionaries with maximal sharing: a ladder of height h is a full 2^h-entry map of key length h
    for h in range(1, 13):
        nodes = [{'b': '00' + '1' * 8, 'r': []}]            # leaf: hml_short of length 0, then an 8-bit value
        for k in range(1, h + 1):
            nodes.append({'b': '00', 'r': [k - 1, k - 1]})
        yield {'nodes': nodes, 'key_len': h}
        yield {'nodes': nodes, 'key_len': h + 5}             # label lengths that never add up: must still be bounded by u
        yield {'nodes': nodes, 'key_len': max(1, h - 1)}


def classify_dict(case):
    u, n = _unfolded(case), len(case['nodes'])
    yield 'unfolded/cells ' + ('=1' if u == n else '<4' if u < 4 * n else '>=4')
    yield 'key_len=%d' % case['key_len']




# --------------------------------------------------------------------------------------------------
# the same work bounds while ANOTHER THREAD uses the library (class-level / module-level per-call state shows only there)
#
# Two things are different from the sub-checks above.
# (1) The instrument. harness/opcount.py counts Python-level *calls*; a traversal that re-walks a shared sub-DAG inside one
#     function (probing a set, pushing on a list) makes no call at all. Here the work of the measuring thread is the number of
#     source LINES it executes inside the library (sys.settrace, which - like sys.setprofile - is per thread: the partner
#     thread's work is not counted), plus the calls. Bounds are again linear in n+e with constants ~6x above what is measured.
# (2) The schedule. A free-running second thread interleaves wherever the interpreter happens to switch; whether it hits the
#     window is luck and not replayable. Here the schedule is part of the case: after every `every`-th line of the measured
#     call the measuring thread hands over to a REAL second thread, which makes one complete small library call (rotating
#     through a list: serialise / order / parse / build / hash a small bag, or serialise the very DAG being measured) and hands
#     back. From the library's point of view that is an ordinary thread switch at that line; every window wider than `every`
#     lines is hit with certainty. (A hand-over that is not answered within 0.2 s - a lock held by the measured call - is
#     skipped.) One variant ('free') lets the partner run freely with the switch interval at 1 us as well.

import sys as _sys
import threading as _threading

_LIBDIR = None


def _libdir():
    global _LIBDIR
    if _LIBDIR is None:
        import os
        from harness.core import REPO
        _LIBDIR = os.path.join(REPO, 'pytoniq_core') + os.sep
    return _LIBDIR


class _Partner:
    """a second thread that makes one library call per hand-over (or, free=True, calls in a loop until closed)"""

    def __init__(self, thunks, free=False):
        self.thunks = thunks
        self.k = 0
        self.steps = 0
        self.stop = False
        self.free = free
        self.req = _threading.Semaphore(0)
        self.done = _threading.Semaphore(0)
        self.th = _threading.Thread(target=self._run, daemon=True)
        self.th.start()

    def _one(self):
        t = self.thunks[self.k % len(self.thunks)]
        self.k += 1
        try:
            t()
        except Exception:
            pass                              # what the partner's call returns is not this property's business

    def _run(self):
        if self.free:
            self.req.acquire()
            while not self.stop:
                self._one()
            return
        while True:
            self.req.acquire()
            if self.stop:
                return
            self._one()
            self.done.release()

    def step(self):
        self.steps += 1
        if self.free:
            if self.steps == 1:
                self.req.release()
            return
        self.req.release()
        self.done.acquire(timeout=0.2)

    def close(self):
        self.stop = True
        self.req.release()
        self.th.join(2)


def lines_counted(f, budget, label, every=0, partner=None):
    """-> (ok, value_or_exception, lines). Lines executed inside the library by this thread while running f; BudgetExceeded as soon
    as they pass `budget`. every > 0: after every `every`-th line the partner thread makes one library call."""
    prefix = _libdir()
    state = {'n': 0, 'exceeded': False}

    def local(frame, event, arg):
        if event == 'line':
            n = state['n'] = state['n'] + 1
            if n > budget:
                state['exceeded'] = True
                _sys.settrace(None)
                raise BudgetExceeded(label)
            if every and n % every == 0 and partner is not None:
                partner.step()
        return local

    def glob(frame, event, arg):
        if event == 'call' and frame.f_code.co_filename.startswith(prefix):
            return local
        return None

    old = _sys.gettrace()
    _sys.settrace(glob)
    try:
        try:
            v = f()
        except BudgetExceeded:
            raise
        except RecursionError as e:
            return False, e, state['n']
        except Exception as e:
            if state['exceeded']:
                raise BudgetExceeded(label)
            return False, e, state['n']
        if state['exceeded']:
            raise BudgetExceeded(label)
        return True, v, state['n']
    finally:
        _sys.settrace(old)


import contextlib as _contextlib


@_contextlib.contextmanager
def logging_config(verbose):
    """for the duration of the block the process has one of the two logging configurations, whatever the shard's own is:
    verbose=False - the interpreter's default (root logger at WARNING, no handler);
    verbose=True  - everything is logged: root logger at level 1 with a handler that renders every record, so lazily formatted
                    arguments ARE formatted (what core._noisy_environment() gives to the odd shards).
    Switched on and off by the case itself, so every case is seen under BOTH configurations whatever shard it is dealt to.
    An application's logging configuration is not part of any input: the work bounds hold under it as they are."""
    import logging

    class _Render(logging.Handler):
        def emit(self, record):
            try:
                record.getMessage()
            except BudgetExceeded:
                raise
            except Exception:
                pass

    root = logging.getLogger()
    old_level, old_disable, old_handlers = root.level, root.manager.disable, root.handlers[:]
    root.handlers[:] = [_Render(level=1)] if verbose else []
    root.setLevel(1 if verbose else logging.WARNING)
    logging.disable(0)
    try:
        yield
    finally:
        root.handlers[:] = old_handlers
        root.setLevel(old_level)
        logging.disable(old_disable)


def check_dag_both_environments(case):
    with logging_config(False):
        f = check_dag(case)
    if f is not None:
        return f
    try:
        with logging_config(True):
            f = check_dag(case)
    except BudgetExceeded as e:
        raise BudgetExceeded(f'verbose-logging/{e}')
    if f is not None:
        return Fail('verbose-logging/' + f.signature, f.detail)
    return None


def check_boc_invalid_top_both_environments(case):
    with logging_config(False):
        check_boc_invalid_top(case)
    try:
        with logging_config(True):
            check_boc_invalid_top(case)
    except BudgetExceeded as e:
        raise BudgetExceeded(f'verbose-logging/{e}')
    return None


# bounds in LINES (measured on the repaired tree: to_boc ~13 lines per cell-or-reference, order ~7.5, from_boc ~75, building ~45)
def _line_bounds(n, e):
    return {'to_boc': 80 * (n + e) + 500, 'order': 50 * (n + e) + 300, 'from_boc': 450 * (n + e) + 1500, 'build': 300 * (n + e) + 1500}


def _partner_thunks(kind, root):
    from pytoniq_core.boc.cell import Cell
    from pytoniq_core.boc.builder import Builder
    from pytoniq_core.boc.hashmap import HashMap
    leaf = Builder().store_uint(7, 8).end_cell()
    small = Builder().store_uint(1, 3).store_ref(leaf).store_ref(leaf).end_cell()
    small_boc = small.to_boc()
    dcell = HashMap(8).set_int_key(1, Builder().store_uint(5, 8).end_cell()).set_int_key(200, leaf).serialize()
    table = {
        'to_boc-small': [lambda: small.to_boc(), lambda: leaf.to_boc(True, True)],
        'order-small': [lambda: small.order(), lambda: leaf.order()],
        'from_boc-small': [lambda: Cell.one_from_boc(small_boc)],
        'build-small': [lambda: Builder().store_uint(9, 16).store_ref(small).store_ref(small).end_cell().hash],
        'dict-small': [lambda: HashMap.parse(dcell.begin_parse(), 8), lambda: str(small.begin_parse())],
        'same-dag': [lambda: root.to_boc(), lambda: root.order()],
    }
    if kind == 'mixed':
        return [t for k in ('to_boc-small', 'from_boc-small', 'order-small', 'build-small', 'dict-small') for t in table[k]]
    return table[kind]


def _with_partner(make_f, line_budget, label, every, thunks, handovers):
    """runs f = make_f(label) once alone (lines L0 - also an ordinary single-threaded bound check, labelled lines/...) and once with the
    partner thread stepping in after every max(every, L0 // handovers)-th line (every = 0: partner runs freely, switch interval 1 us)"""
    alone = label.replace('two-threads/', 'lines/')
    ok, v, l0 = lines_counted(make_f(alone), line_budget, alone)
    f = make_f(label)
    partner = _Partner(thunks, free=(every == 0))
    old = _sys.getswitchinterval()
    if every == 0:
        _sys.setswitchinterval(1e-6)
    try:
        lines_counted(f, line_budget, label, every=max(every, l0 // handovers, 1), partner=partner)
    finally:
        _sys.setswitchinterval(old)
        partner.close()


def check_dag_two_threads(case):
    """one bound of check_dag (case['op']), in lines executed by the measuring thread, while a second thread makes library calls at
    the points given by the case (after every `every`-th line of the measured call; every = 0: whenever the interpreter switches)"""
    from pytoniq_core.boc.cell import Cell
    cells = dag.build_ref(case['spec'])
    n, e = _ne(cells[-1])
    lb = _line_bounds(n, e)
    every, op = case['every'], case['op']
    lib = dag.lib_from_ref(cells, 'builder')
    root = lib[-1]
    if op == 'build':
        f, key = (lambda: dag.lib_from_ref(cells, 'builder')), 'build'
    elif op == 'to_boc':
        f, key = (lambda: root.to_boc()), 'to_boc'
    elif op == 'to_boc-flags':
        f, key = (lambda: root.to_boc(True, True, True)), 'to_boc'
    elif op == 'order':
        f, key = (lambda: (root.order(), root.order())), 'order'
    elif op == 'from_boc':
        boc0 = root.to_boc()
        f, key = (lambda: Cell.one_from_boc(boc0)), 'from_boc'
    elif op == 'reserialise-parsed':
        parsed = Cell.one_from_boc(root.to_boc())       # fresh objects, one per cell of the bag, shared like in the bag
        f, key = (lambda: parsed.to_boc()), 'to_boc'
    else:
        raise ValueError(op)
    _with_partner(lambda label: f, lb[key], 'two-threads/' + key, every, _partner_thunks(case['partner'], root), 40 if case['partner'] == 'same-dag' else 250)
    return None                     # what the call returns / raises under threads belongs to C03/C04; here: bounded work


def enum_two_threads(tier):
    shapes = [('ladder', ladder(16)), ('ladder', ladder(30)), ('ladder', ladder(60)), ('ladder4', ladder(12, 4)), ('lattice', lattice(20)),
              ('ladder-on-pruned-mask1', ladder(16, leaf={'k': 'P', 'm': 1, 's': '%08x' % 16, 'd': [0, 1, 2]}))]
    if tier == 'thorough':
        shapes += [('ladder', ladder(200)), ('ladder', ladder(400)), ('lattice', lattice(100)), ('ladder4', ladder(60, 4))]
    partners = ['to_boc-small', 'order-small', 'from_boc-small', 'build-small', 'dict-small', 'same-dag', 'mixed']
    # hand-over periods tried per measured call (lower bound: a case never makes more than ~250 hand-overs on a tree where the
    # property holds - the period is raised to lines-alone / 250 for the big calls)
    base = {'order': (1, 2, 3, 5), 'to_boc': (1, 3, 7, 20), 'to_boc-flags': (2, 5, 11), 'from_boc': (5, 11, 50), 'build': (5, 11, 50),
            'reserialise-parsed': (2, 7, 13)}
    k = 0
    for shape, spec in shapes:
        for op, evs in base.items():
            for p in partners:
                k += 1
                if tier == 'quick' and p not in ('mixed', 'same-dag') and k % 2:
                    continue
                yield {'spec': spec, 'shape': shape, 'partner': p, 'op': op, 'every': evs[k % len(evs)]}
            yield {'spec': spec, 'shape': shape, 'partner': 'mixed', 'op': op, 'every': 0}


def classify_two_threads(case):
    yield 'shape=' + case['shape']
    yield 'partner=' + case['partner']
    yield 'measured=' + case['op']
    ev = case['every']
    yield 'hand-over=' + ('free-running' if ev == 0 else 'every-line' if ev == 1 else 'every-2..5-lines' if ev <= 5 else 'every-6..20-lines' if ev <= 20
                          else 'every-21+-lines')


def check_parser_two_threads(case):
    """the parsers' bounds (calls, as in the single-threaded sub-checks, and lines = 10 x that) while a second thread runs the same
    parser on another small input at the points given by the case"""
    from pytoniq_core.boc.hashmap.parse import parse_hashmap
    from pytoniq_core.boc.hashmap import HashMap
    from pytoniq_core.boc.builder import Builder
    kind, every = case['kind'], case['every']
    if kind == 'tl':
        from harness.props import c14
        g, schemas = c14._schemas()
        data = _tl_bytes(case['input'])
        cid = data[:4]                                   # the partner parses small objects of the same constructor: flat, and nested twice
        flat = cid + _tl_str(b'\x01\x02\x03')
        other = [flat, cid + _tl_str(cid + _tl_str(flat) + b'\xde\xad\xbe\xef')]
        f, bound, label = (lambda: schemas.deserialize(data)), 150 * len(data) + 3000, 'two-threads/tl-deserialize'
        thunks = [(lambda o=o: schemas.deserialize(o)) for o in other] or [lambda: None]
    else:
        if kind == 'dict-ladder':
            cell, u, n = dag.lib_from_rcell(_dict_tree(case['input'])), _unfolded(case['input']), case['input']['key_len']
        else:
            root, k = _dict_with_values(case['input'])
            cell, u, n = dag.lib_from_rcell(root), 2 * k - 1, case['input']['key_len']
        f, bound, label = (lambda: (parse_hashmap(cell.begin_parse(), n), HashMap.parse(cell.begin_parse(), n))), 2 * (120 * u + 400), 'two-threads/dict-parse'
        leaf = Builder().store_uint(7, 8).end_cell()
        dcell = HashMap(8).set_int_key(1, leaf).set_int_key(200, leaf).set_int_key(77, leaf).serialize()
        thunks = [lambda: HashMap.parse(dcell.begin_parse(), 8), lambda: parse_hashmap(dcell.begin_parse(), 8), lambda: HashMap.from_cell(dcell, 8).serialize()]
    # the logging dimension is dict-parser-values-over-shared-dags' business: here the default configuration, whatever the shard's is
    with logging_config(False):
        _with_partner(lambda lab: (lambda: counted(f, bound, lab)), 10 * bound, label, every, thunks, 100)
    return None


def enum_parser_two_threads(tier):
    k = 0
    evs = (1, 2, 3, 5, 7, 11, 20, 0)
    for x in enum_tl_nesting(tier):
        d = int(x['shape'].split('=')[1])
        if d in (8, 16) or (tier == 'thorough' and d <= 30):
            for j in range(2 if tier == 'quick' else 4):
                k += 1
                ev = evs[k % len(evs)]
                yield {'kind': 'tl', 'input': x, 'every': ev, 'shape': 'tl-nested-bytes/' + x['shape']}
    for x in enum_dict_ladders(tier):
        if len(x['nodes']) - 1 in (3, 6, 8) or (tier == 'thorough' and len(x['nodes']) <= 11):
            for j in range(2 if tier == 'quick' else 4):
                k += 1
                ev = evs[k % len(evs)]
                yield {'kind': 'dict-ladder', 'input': x, 'every': ev, 'shape': 'dict-ladder/h=%d' % (len(x['nodes']) - 1)}
    for x in enum_dict_values(tier):
        if x['h'] in (20, 48) and not x.get('aug'):
            k += 1
            yield {'kind': 'dict-values', 'input': x, 'every': evs[k % len(evs)], 'shape': 'dict-values-over-ladder'}


# --------------------------------------------------------------------------------------------------
# dictionaries whose VALUES reference shared DAGs: the parser reads the dictionary's own cells and hands the values out;
# what a value references is none of its business - in either logging configuration

def _dict_with_values(case):
    from harness.ref import refdict
    top = dag.build_ref(ladder(case['h'], case.get('w', 2)))[-1]
    n = case['key_len']
    mapping = {}
    for i, k in enumerate(case['keys']):
        refs = [top] * case['vrefs'][i % len(case['vrefs'])]
        mapping[format(k % (1 << n), '0%db' % n)] = (format((i * 37 + 5) % 256, '08b'), refs)
    extra_of = (lambda keys, is_leaf, path: (format(len(keys) % 256, '08b'), [])) if case.get('aug') else None
    return refdict.build(mapping, n, extra_of=extra_of), len(mapping)


def check_dict_values(case):
    from pytoniq_core.boc.cell import Cell
    from pytoniq_core.boc.builder import Builder
    from pytoniq_core.boc.hashmap.parse import parse_hashmap
    from pytoniq_core.boc.hashmap import HashMap
    root, k = _dict_with_values(case)
    u = 2 * k - 1                                   # dictionary cells: k leaves, k-1 forks
    n = case['key_len']
    built = dag.lib_from_rcell(root)
    ncells, nrefs = _ne(root)
    ok, boc, _ = counted(lambda: built.to_boc(), 40 * (ncells + nrefs) + 200, 'to_boc')
    if not ok:
        return Fail(f'to_boc-raises/{type(boc).__name__}', f'{exc_sig(boc)}: {boc!r}')
    ok, parsed, _ = counted(lambda: Cell.one_from_boc(boc), 150 * (ncells + nrefs) + 400, 'from_boc')
    if not ok:
        return Fail(f'from_boc-raises/{type(parsed).__name__}', f'{exc_sig(parsed)}: {parsed!r}')
    bound = 120 * u + 60 * k + 400

    def rd(s):
        return (s.load_uint(8), s.load_ref().hash)

    for env in ('default', 'verbose-logging'):
        with logging_config(env == 'verbose-logging'):
            for cell in (built, parsed):
                wrapped = Builder().store_bit(1).store_ref(cell).end_cell()
                if case.get('aug'):
                    fs = [lambda: cell.begin_parse().load_hashmap_aug(n, lambda s: s, lambda s: s.load_uint(8)),
                          lambda: wrapped.begin_parse().load_hashmap_aug_e(n, lambda s: s, lambda s: 0)]
                else:
                    fs = [lambda: parse_hashmap(cell.begin_parse(), n),
                          lambda: HashMap.parse(cell.begin_parse(), n),
                          lambda: HashMap.parse(cell.begin_parse(), n, None, rd),
                          lambda: HashMap.from_cell(cell, n),
                          lambda: cell.begin_parse().load_hashmap(n, value_deserializer=rd),
                          lambda: wrapped.begin_parse().load_dict(n),
                          lambda: wrapped.begin_parse().preload_dict(n, None, rd)]
                for f in fs:
                    counted(f, bound, 'dict-parse' if env == 'default' else 'verbose-logging/dict-parse')
    return None


def enum_dict_values(tier):
    hs = (20, 30, 48, 100, 250) if tier == 'quick' else (16, 20, 24, 30, 40, 48, 64, 100, 250, 600)
    i = 0
    for h in hs:
        for key_len, keys in ((8, [1, 2]), (1, [0, 1]), (8, [0]), (16, [3, 77, 1000, 65535, 4096]), (32, list(range(0, 160, 10))), (256, [1 << 255, 5, 6])):
            for aug in (False, True):
                for vrefs in ([1], [2], [4], [1, 0, 2]):
                    i += 1
                    if tier == 'quick' and (i + h) % 3:
                        continue
                    yield {'h': h, 'key_len': key_len, 'keys': keys, 'vrefs': vrefs, 'aug': aug, 'w': 2 if i % 4 else 3}


def classify_dict_values(case):
    yield 'value-ladder-height=%d' % case['h']
    yield 'entries=%d' % len(case['keys'])
    yield 'aug' if case.get('aug') else 'plain'
    yield 'environment=default+verbose-logging'


SUBCHECKS = [
    Sub('max-sharing-dags', check_dag_both_environments, enum=enum_sharing, classify=classify, nontrivial=nt, shards=(16, 16), case_cpu_s=10,
        timeout_is_violation=True, note='doubling ladders (2 and 4 refs to the same child) and lattices, height 1..40, 60, 100, 200; every case under the default '
             'logging configuration and again with everything logged and rendered'),
    Sub('random-dags', check_dag, strategy=strat_dag, classify=classify, nontrivial=nt, n=(600, 10000), shards=(8, 32), case_cpu_s=10,
        timeout_is_violation=True),
    Sub('tl-parser-user-schemas', check_tl_user_schema, enum=enum_tl_user_schema, shards=(4, 8), case_cpu_s=10, timeout_is_violation=True,
        classify=lambda c: [c['host'], 'count=2^%d' % c['count'].bit_length()], nontrivial=lambda c: c['count'] > 5,
        note='user-registered TL schemas with vectors of zero-size elements (field-less bare constructor, absent optional field), nested '
             'vectors and vectors of ints: 13 counts x 4 tails'),
    Sub('boc-parser-count-fields-grid', check_boc_bytes, enum=lambda tier: enum_count_fields(tier), classify=classify, nontrivial=nt, shards=(8, 16),
        case_cpu_s=10, timeout_is_violation=True,
        note='a small valid bag (with and without index, size 1..4) with ONE count field (cells / roots / absent / tot) rewritten to every power '
             'of two the field can hold, and its neighbours: neither the call count nor the peak memory may follow the field'),
    Sub('boc-parser-inflated-counts', check_boc_bytes, strategy=strat_boc_bytes, classify=classify, nontrivial=nt, n=(2000, 60000),
        shards=(8, 32), case_cpu_s=10, timeout_is_violation=True),
    Sub('boc-parser-invalid-cell-over-shared-dag', check_boc_invalid_top_both_environments, enum=enum_boc_invalid_top, shards=(8, 8), case_cpu_s=10,
        classify=lambda c: ['type=%d' % c['type'], 'h=%d' % c['h']], nontrivial=lambda c: True,
        note='ladders of height 20..250 (2^20..2^250 paths) under a root cell of exotic type 0/1/2/3/4/9/255 with wrong reference counts / data; '
             'both logging configurations'),
    Sub('tl-parser-adversarial-counts', check_tl_bytes, strategy=strat_tl, classify=classify_tl, n=(3000, 100000), shards=(8, 32),
        case_cpu_s=10, timeout_is_violation=True,
        note='valid TL encodings (reference encoder) with vector counts / string length prefixes / flags rewritten to huge values, '
             'optionally truncated; and constructor id + arbitrary words'),
    Sub('tl-parser-nested-bytes-payloads', check_tl_bytes, enum=enum_tl_nesting, classify=lambda c: [c['shape']], nontrivial=lambda c: True,
        shards=(8, 8), case_cpu_s=10, note='objects nested 8..60 deep through bytes fields; payload = inner object + trailing junk / twice / alone'),
    Sub('dict-parser-ladders', check_dict_tree, enum=enum_dict_ladders, classify=classify_dict, shards=(4, 4), case_cpu_s=10,
        timeout_is_violation=True, note='full 2^h-entry dictionaries as ladders h=1..12, with matching and non-matching key lengths'),
    Sub('dict-parser-arbitrary-trees', check_dict_tree, strategy=strat_dict, classify=classify_dict, n=(1500, 40000), shards=(8, 32),
        case_cpu_s=10, timeout_is_violation=True, note='arbitrary binary cell DAGs read as dictionaries (labels valid or not)'),
    Sub('dict-parser-values-over-shared-dags', check_dict_values, enum=enum_dict_values, classify=classify_dict_values, shards=(8, 16),
        case_cpu_s=10, timeout_is_violation=True, nontrivial=lambda c: True,
        note='valid dictionaries (plain and augmented, 1..16 entries, key length 1..256) whose values hold 0..4 references to the top of a '
             'doubling ladder of height 16..600 (2^h paths, a few hundred bytes as a bag of cells): every dictionary entry point, on built and '
             'on parsed cells, under the default logging configuration and with everything logged and rendered; bound = dictionary cells only'),
    Sub('max-sharing-dags-while-another-thread-uses-the-library', check_dag_two_threads, enum=enum_two_threads, classify=classify_two_threads,
        shards=(8, 16), case_cpu_s=20, timeout_is_violation=True, nontrivial=lambda c: True,
        note='ladders / lattices built, serialised, parsed, re-serialised, ordered while a second thread makes one small library call '
             '(serialise / order / parse / build / dictionary / the same DAG) after every k-th line (k = 1..50, a deterministic schedule) or '
             'runs freely; work of the measuring thread counted in lines executed inside the library'),
    Sub('parsers-while-another-thread-parses', check_parser_two_threads, enum=enum_parser_two_threads, shards=(8, 16), case_cpu_s=20,
        timeout_is_violation=True, nontrivial=lambda c: True,
        classify=lambda c: [c['shape'].split('/')[0], 'hand-over=' + ('free-running' if c['every'] == 0 else 'scheduled')],
        note='TL objects nested through bytes fields, ladder dictionaries and dictionaries with values over shared DAGs, parsed while a second '
             'thread runs the same parser on another small input after every k-th line (or freely)'),
]
