"""
C19 — work is bounded by the size of the input; every parser terminates.

Instrument: harness/opcount.py counts Python function calls executed inside pytoniq_core (sys.setprofile), aborting
at the bound. Secondary signal: per-case CPU ceiling (ITIMER_VIRTUAL, 10 s) — for this property an expiry IS a violation.
Bounds (generous linear bounds; measured constants on the repaired tree are ~6x below them — see evidence 'classes'):
  to_boc of a DAG with n distinct cells, e references:      calls <= 40*(n+e) + 200
  from_boc of its serialisation:                             calls <= 150*(n+e) + 400
  hashing the DAG bottom-up through Builder:                 calls <= 150*(n+e) + 400
  BoC parser on ANY byte string b (inflated count fields):   calls <= 200*len(b) + 600
  dictionary parse of a cell tree with u unfolded nodes:     calls <= 120*u + 400  (result has one entry per path)
  TL deserialize of ANY byte string b:                       calls <= 150*len(b) + 3000
Not asserted: wall-clock times.
"""
from hypothesis import strategies as st
from harness.core import Sub, Fail, call, exc_sig, BudgetExceeded
from harness.gen import dag, boccases
from harness.ref import refcell as rc, refboc
from harness.opcount import counted

RULE = ('DAG cases = maximal-sharing shapes (doubling ladders of height 1..200, lattices, random DAGs with repeated refs); '
        'parser cases = valid encodings whose count/length fields are rewritten to huge values, and random byte strings with '
        'valid magic. non-trivial = sharing factor (paths/cells) >= 4, or a rewritten count field; distinct = distinct case')
ASSUMPTIONS = ['call counts via sys.setprofile restricted to files under pytoniq_core/', 'bounds are linear with generous constants']


def _ne(cells_root):
    order = rc.topo([cells_root])
    return len(order), sum(len(c.refs) for c in order)


def check_dag(case):
    from pytoniq_core.boc.cell import Cell
    cells = dag.build_ref(case['spec'])
    n, e = _ne(cells[-1])
    ok, lib, calls_build = counted(lambda: dag.lib_from_ref(cells, 'builder'), 150 * (len(cells) * 5) + 400, 'build-hash')
    if not ok:
        return Fail('construction-raises', f'{exc_sig(lib)}: {lib!r}')
    root = lib[-1]
    for (idx, crc, cache) in ((0, 0, 0), (1, 1, 1)):
        ok, boc, calls = counted(lambda: root.to_boc(bool(idx), bool(crc), bool(cache)), 40 * (n + e) + 200, 'to_boc')
        if not ok:
            return Fail(f'to_boc-raises/{type(boc).__name__}', f'{exc_sig(boc)}: {boc!r} (n={n} e={e})')
        ok, parsed, calls2 = counted(lambda: Cell.one_from_boc(boc), 150 * (n + e) + 400, 'from_boc')
        if not ok:
            return Fail(f'from_boc-raises/{type(parsed).__name__}', f'{exc_sig(parsed)}: {parsed!r}')
        if parsed.hash != cells[-1].repr_hash():
            return Fail('roundtrip-hash', '')
        # re-serialising the parsed (fresh objects, no shared identity) tree
        ok, boc2, calls3 = counted(lambda: parsed.to_boc(bool(idx), bool(crc), bool(cache)), 40 * (n + e) + 200, 'to_boc')
        if not ok:
            return Fail(f'to_boc-raises/{type(boc2).__name__}', f'{exc_sig(boc2)}: parsed tree')
    # ordering helper called directly, twice (history independence is C08; here: bounded work)
    ok, od, calls4 = counted(lambda: (root.order(), root.order()), 40 * (n + e) + 200, 'order')
    if not ok:
        return Fail(f'order-raises/{type(od).__name__}', f'{exc_sig(od)}')
    return None


def check_boc_bytes(case):
    from pytoniq_core.boc.cell import Cell
    if 'raw' in case:
        data = bytes.fromhex(case['raw'])
    else:
        cells = dag.build_ref(case['spec'])
        data = bytearray(refboc.encode([cells[-1]], magic=case.get('magic', 'generic'), has_idx=case['idx'], has_crc=False,
                                       size=case['size'], off_bytes=case['off']))
        size, off = case['size'], case['off']
        fields = {'cells': (6, size), 'roots': (6 + size, size), 'absent': (6 + 2 * size, size), 'tot': (6 + 3 * size, off),
                  'off_bytes': (5, 1), 'flags_size': (4, 1)}
        for name, val in case['rewrite']:
            o, w = fields[name]
            data[o:o + w] = (val % (256 ** w)).to_bytes(w, 'big')
        data = bytes(data)
    ok, res, calls = counted(lambda: Cell.from_boc(data), 200 * len(data) + 600, 'from_boc-bytes')
    return None  # raising or returning are both fine here; only the bound matters


def check_boc_invalid_top(case):
    """a bag whose cells form a maximal-sharing ladder, topped by a cell the parser has to REFUSE (an exotic type byte with the
    wrong number of references / an unknown type / a Merkle cell whose stored hash is wrong / too short for an exotic cell):
    refusing it costs work bounded by the input like everything else - whatever is done on the error path (messages included)
    must not walk the shared DAG once per path"""
    from pytoniq_core.boc.cell import Cell
    h = case['h']
    spec = ladder(h)
    top_bits = format(case['type'], '08b') + dag.expand_bits(case['nbits'], 2, h)
    spec.append({'k': 'o', 'b': top_bits, 'r': [h] * case['nrefs']})
    cells = dag.build_ref(spec)
    data = bytearray(refboc.encode([cells[-1]], has_idx=False, has_crc=False, size=1, off_bytes=2))
    pos = 4 + 1 + 1 + 3 + 2 + 1                  # magic, flags, off_bytes, cells/roots/absent, tot_cells_size, root index
    if data[pos] != case['nrefs']:
        raise AssertionError('root cell not where expected (harness)')
    data[pos] |= 8                                # the exotic flag of d1: the first data byte now is the cell type
    data = bytes(data)
    for f, nm in ((lambda: Cell.from_boc(data), 'from_boc-bytes'), (lambda: Cell.one_from_boc(data.hex()), 'from_boc-bytes')):
        ok, res, calls = counted(f, 200 * len(data) + 600, nm)
    # the same cell built directly on top of library cells (Builder(type_=t) ... end_cell())
    from pytoniq_core.boc.builder import Builder
    lib = dag.lib_from_ref(cells[:-1], 'builder')

    def direct():
        b = Builder(type_=case['type'] if case['type'] < 128 else case['type'] - 256).store_bits(top_bits)
        for _ in range(case['nrefs']):
            b.store_ref(lib[-1])
        return b.end_cell()
    ok, res, calls = counted(direct, 200 * len(data) + 600, 'build-hash')
    return None                                   # raising is the expected outcome; only the bound matters


def enum_boc_invalid_top(tier):
    for h in (20, 25, 30, 40, 60, 120, 250):
        for t, nrefs, nbits in ((1, 1, 272), (1, 2, 272), (1, 4, 16), (2, 1, 256), (2, 2, 0), (3, 2, 272), (3, 1, 272), (3, 0, 272),
                                (4, 1, 544), (4, 2, 544), (4, 3, 544), (9, 1, 8), (0, 2, 8), (255, 2, 64), (3, 1, 0), (4, 2, 8)):
            yield {'h': h, 'type': t, 'nrefs': nrefs, 'nbits': nbits}


def ladder(h, width=2, leaf=None):
    spec = [leaf or {'k': 'o', 'b': [8, 2, h], 'r': []}]
    for k in range(1, h + 1):
        spec.append({'k': 'o', 'b': [k % 13, 2, k], 'r': [k - 1] * width})
    return spec


def lattice(h):
    # two nodes per level, each referencing both nodes of the level below: 2^h paths, 2h cells
    spec = [{'k': 'o', 'b': [4, 2, 1], 'r': []}, {'k': 'o', 'b': [4, 2, 2], 'r': []}]
    for lv in range(1, h):
        a, b = 2 * lv - 2, 2 * lv - 1
        spec.append({'k': 'o', 'b': [5, 2, lv * 2], 'r': [a, b, a, b]})
        spec.append({'k': 'o', 'b': [5, 2, lv * 2 + 1], 'r': [b, a]})
    spec.append({'k': 'o', 'b': [1, 1, 0], 'r': [len(spec) - 2, len(spec) - 1]})
    return spec


def enum_sharing(tier):
    hs = list(range(1, 41)) + [60, 100, 200] + ([400, 1000] if tier == 'thorough' else [])
    for h in hs:
        yield {'spec': ladder(h), 'shape': 'ladder'}
        yield {'spec': ladder(h, 4), 'shape': 'ladder4'}
        yield {'spec': lattice(h), 'shape': 'lattice'}
        if h <= 60:
            # the same sharing above a cell of non-zero level (a pruned branch of mask 1 / 3 / 7, a library cell): every cell of
            # the ladder then has level > 0 - sharing must be recognised for such cells too
            for m in (1, 3, 7):
                yield {'spec': ladder(h, leaf={'k': 'P', 'm': m, 's': '%08x' % h, 'd': [0, 1, 2]}), 'shape': f'ladder-on-pruned-mask{m}'}
            yield {'spec': ladder(h, leaf={'k': 'l', 's': '%08x' % h}), 'shape': 'ladder-on-library-cell'}


def strat_dag(tier):
    return st.fixed_dictionaries({'spec': st.one_of(dag.st_ord_dag(max_nodes=60, max_len=32), dag.st_exotic_dag(max_nodes=30, max_len=32)),
                                  'shape': st.just('random')})


BIG = [2 ** 16 - 1, 2 ** 24 - 1, 2 ** 31, 2 ** 32 - 1, 2 ** 63, 2 ** 64 - 1, 255, 256, 65536]


def strat_boc_bytes(tier):
    rewritten = st.fixed_dictionaries({
        'spec': dag.st_ord_dag(max_nodes=6, max_len=24), 'idx': st.booleans(), 'size': st.integers(1, 4), 'off': st.integers(1, 8),
        'rewrite': st.lists(st.one_of(st.tuples(st.sampled_from(['cells', 'roots', 'absent', 'tot']), st.sampled_from(BIG)),
                                      st.tuples(st.just('off_bytes'), st.sampled_from([0, 0, 1, 9, 255])),
                                      st.tuples(st.just('flags_size'), st.sampled_from([0x80, 0x84, 0xC1, 0xE7, 0x00, 0x08]))).map(list),
                            min_size=1, max_size=4),
        'magic': st.sampled_from(['generic', 'generic', 'idx', 'idx_crc'])})
    magic = st.sampled_from(['b5ee9c72', '68ff65f3', 'acc3a728'])
    raw = st.builds(lambda m, fl, rest: {'raw': m + '%02x' % fl + rest.hex()}, magic, st.integers(0, 255), st.binary(min_size=0, max_size=120))
    return st.one_of(rewritten, rewritten, raw)


def _paths(spec):
    p = [1] * len(spec)
    for k, nd in enumerate(spec):
        ch = nd.get('r', [])
        ch = [ch] if isinstance(ch, int) else ch
        if nd['k'] == 'p':
            ch = []
        if ch:
            p[k] = 1 + sum(p[c] for c in ch)
    return p[-1]


def classify(case):
    if 'spec' in case and 'rewrite' not in case:
        s = _paths(case['spec']) // max(1, len(case['spec']))          # integers: 2^1000 paths do not fit a float
        yield 'sharing-factor ' + ('<4' if s < 4 else '4..1e3' if s < 10 ** 3 else '1e3..1e9' if s < 10 ** 9 else '>1e9')
        yield 'shape=' + case.get('shape', '?')
    elif 'rewrite' in case:
        for name, _ in case['rewrite']:
            yield 'rewrite=' + name
    else:
        yield 'raw-bytes'


def nt(case):
    if 'rewrite' in case:
        return True
    if 'raw' in case:
        return len(case['raw']) > 12
    return _paths(case['spec']) >= 4 * max(1, len(case['spec']))


# --------------------------------------------------------------------------------------------------
# TL parser: work bounded by the input length, not by a count/length field read from it

TL_BIG = [0xffffffff, 0x7fffffff, 0x80000000, 0x10000, 0x1000000, 0x00fffffe, 0xfffffffe]


def _tl_bytes(case):
    from harness.props import c14
    if 'raw' in case:
        return bytes.fromhex(case['raw'])
    info = c14.new_info()
    ref, _ = c14.mat_obj(case['ctor'], case['v'], info)
    pieces = [[k, b] for k, b in c14.SCH.pieces(case['ctor'], ref)]
    cand = [i for i, (k, b) in enumerate(pieces) if k == 'vector-count' or k.endswith('-prefix') or k in ('nat', 'int')]
    for sel, val in case['rewrite']:
        if not cand:
            break
        i = cand[sel % len(cand)]
        k, b = pieces[i]
        if k.endswith('-prefix'):
            pieces[i][1] = b'\xfe' + (val & 0xffffff).to_bytes(3, 'little') if val & 1 else bytes([val % 254])
        else:
            pieces[i][1] = (val & 0xffffffff).to_bytes(4, 'little')
    data = b''.join(b for _, b in pieces)
    cut = case.get('cut')
    return data[:cut] if cut is not None else data


def check_tl_bytes(case):
    from harness.props import c14
    g, schemas = c14._schemas()
    data = _tl_bytes(case)
    counted(lambda: schemas.deserialize(data), 150 * len(data) + 3000, 'tl-deserialize')
    return None      # raising or returning are both fine here; only the bound matters


def _tl_str(b):
    n = len(b)
    head = bytes([n]) if n < 254 else b'\xfe' + n.to_bytes(3, 'little')
    return head + b + b'\x00' * (-(len(head) + n) % 4)


def enum_tl_nesting(tier):
    """objects nested through `bytes` fields d levels deep, each level's payload = [the inner object][k trailing bytes that are no
    object] / = [inner][inner] / = the inner object alone: the parser looks into such payloads (auto-deserialisation); however it
    walks them, the work stays linear in the input - a payload is not parsed again for every level above it"""
    from harness.props import c14
    hosts = [n for n in ('adnl.message.custom', 'liteServer.query', 'adnl.message.answer') if n in c14.SUPPORTED]
    for host in hosts[:2]:
        cid = c14.SCH.ctor(host).id_le
        args = c14.SCH.ctor(host).args
        if [a.type for a in args] != [('prim', 'bytes')]:
            continue
        for depth in (8, 12, 16, 20, 24, 30, 40, 60):
            for shape in ('trailing-junk', 'twice', 'alone', 'leading-junk'):
                inner = cid + _tl_str(b'\x01\x02\x03')
                for _ in range(depth):
                    if shape == 'trailing-junk':
                        payload = inner + b'\xde\xad\xbe\xef'
                    elif shape == 'twice':
                        payload = inner + inner if len(inner) < 4000 else inner
                    elif shape == 'leading-junk':
                        payload = b'\xde\xad\xbe\xef' + inner
                    else:
                        payload = inner
                    inner = cid + _tl_str(payload)
                if len(inner) <= 20000:
                    yield {'raw': inner.hex(), 'shape': f'{shape}/depth={depth}'}


def strat_tl(tier):
    from harness.props import c14
    with_counts = [n for n in c14.SUPPORTED if any(a.type[0] == 'vector' or a.type in (('prim', 'bytes'), ('prim', 'string'))
                                                   for a in c14.SCH.ctor(n).args)]

    @st.composite
    def rewritten(draw):
        name = draw(st.sampled_from(with_counts))
        tree = c14.gen_obj(c14.HypChooser(draw), name, draw(st.sampled_from([1, 2, 3])), False, bit31=False)
        rw = draw(st.lists(st.tuples(st.integers(0, 63), st.sampled_from(TL_BIG)).map(list), min_size=1, max_size=3))
        return {'ctor': name, 'v': tree, 'rewrite': rw, 'cut': draw(st.one_of(st.none(), st.integers(4, 200)))}

    ids = [c14.SCH.ctor(n).id_le.hex() for n in with_counts]
    raw = st.builds(lambda i, body: {'raw': i + body.hex()}, st.sampled_from(ids),
                    st.one_of(st.binary(max_size=64),
                              st.lists(st.sampled_from([b'\xff\xff\xff\xff', b'\xfe\xff\xff\xff', b'\x00\x00\x00\x00', b'\xff\xff\xff\x7f',
                                                        b'\x01\x00\x00\x00', b'\x00\x00\x01\x00']), max_size=24).map(b''.join)))
    return st.one_of(rewritten(), rewritten(), raw)


def classify_tl(case):
    if 'raw' in case:
        yield 'raw-after-ctor-id'
    else:
        yield 'rewritten-fields=%d' % len(case['rewrite'])
        if case.get('cut') is not None:
            yield 'truncated'


# --------------------------------------------------------------------------------------------------
# dictionary parser: work bounded by the unfolded size of the cell tree it is given

def _dict_tree(case):
    """reference cells of a binary cell tree of the given height; every node carries `label` bits (arbitrary - they are
    read as a hashmap label, valid or not) and, unless it is a leaf, two references (the same child twice when shared)"""
    nodes = []
    for nd in case['nodes']:
        refs = [nodes[i] for i in nd['r']]
        nodes.append(rc.RCell(nd['b'], refs))
    return nodes[-1]


def _unfolded(case):
    u = []
    for nd in case['nodes']:
        u.append(1 + sum(u[i] for i in nd['r']))
    return u[-1]


def check_dict_tree(case):
    from pytoniq_core.boc.slice import Slice
    from pytoniq_core.boc.hashmap.parse import parse_hashmap
    from pytoniq_core.boc.hashmap import HashMap
    root = _dict_tree(case)
    u = _unfolded(case)
    cell = dag.lib_from_rcell(root)
    for f in (lambda: parse_hashmap(cell.begin_parse(), case['key_len']),
              lambda: HashMap.parse(cell.begin_parse(), case['key_len']),
              lambda: cell.begin_parse().load_hashmap_aug(case['key_len'], lambda s: s, lambda s: 0)
              ):
        counted(f, 120 * u + 400, 'dict-parse')
    return None


@st.composite
def _st_dict_tree(draw):
    n = draw(st.integers(1, 24))
    nodes = []
    bits = st.text('01', min_size=0, max_size=24)
    for k in range(n):
        if k == 0 or draw(st.integers(0, 5)) == 0:
            r = []
        else:
            a = draw(st.integers(0, k - 1))
            b = a if draw(st.booleans()) else draw(st.integers(0, k - 1))
            r = [a, b]
        # label bits: bias to "short label of length 0" (0 0), "same" (11 v n) and "long" (10 n ...) forms
        lab = draw(st.sampled_from(['00', '0', '11', '10', ''])) + draw(bits)
        nodes.append({'b': lab, 'r': r})
    return {'nodes': nodes, 'key_len': draw(st.sampled_from([1, 2, 3, 8, 16, 32, 64, 256, 1023]))}


def _cap_unfolded(case):
    return _unfolded(case) <= 20000


def strat_dict(tier):
    return _st_dict_tree().filter(_cap_unfolded)


def enum_dict_ladders(tier):
    # valid dictionaries with maximal sharing: a ladder of height h is a full 2^h-entry map of key length h
    for h in range(1, 13):
        nodes = [{'b': '00' + '1' * 8, 'r': []}]            # leaf: hml_short of length 0, then an 8-bit value
        for k in range(1, h + 1):
            nodes.append({'b': '00', 'r': [k - 1, k - 1]})
        yield {'nodes': nodes, 'key_len': h}
        yield {'nodes': nodes, 'key_len': h + 5}             # label lengths that never add up: must still be bounded by u
        yield {'nodes': nodes, 'key_len': max(1, h - 1)}


def classify_dict(case):
    u, n = _unfolded(case), len(case['nodes'])
    yield 'unfolded/cells ' + ('=1' if u == n else '<4' if u < 4 * n else '>=4')
    yield 'key_len=%d' % case['key_len']


SUBCHECKS = [
    Sub('max-sharing-dags', check_dag, enum=enum_sharing, classify=classify, nontrivial=nt, shards=(16, 16), case_cpu_s=10,
        timeout_is_violation=True, note='doubling ladders (2 and 4 refs to the same child) and lattices, height 1..40, 60, 100, 200'),
    Sub('random-dags', check_dag, strategy=strat_dag, classify=classify, nontrivial=nt, n=(600, 10000), shards=(8, 32), case_cpu_s=10,
        timeout_is_violation=True),
    Sub('boc-parser-inflated-counts', check_boc_bytes, strategy=strat_boc_bytes, classify=classify, nontrivial=nt, n=(2000, 60000),
        shards=(8, 32), case_cpu_s=10, timeout_is_violation=True),
    Sub('boc-parser-invalid-cell-over-shared-dag', check_boc_invalid_top, enum=enum_boc_invalid_top, shards=(8, 8), case_cpu_s=10,
        classify=lambda c: ['type=%d' % c['type'], 'h=%d' % c['h']], nontrivial=lambda c: True,
        note='ladders of height 20..250 (2^20..2^250 paths) under a root cell of exotic type 0/1/2/3/4/9/255 with wrong reference counts / data'),
    Sub('tl-parser-adversarial-counts', check_tl_bytes, strategy=strat_tl, classify=classify_tl, n=(3000, 100000), shards=(8, 32),
        case_cpu_s=10, timeout_is_violation=True,
        note='valid TL encodings (reference encoder) with vector counts / string length prefixes / flags rewritten to huge values, '
             'optionally truncated; and constructor id + arbitrary words'),
    Sub('tl-parser-nested-bytes-payloads', check_tl_bytes, enum=enum_tl_nesting, classify=lambda c: [c['shape']], nontrivial=lambda c: True,
        shards=(8, 8), case_cpu_s=10, note='objects nested 8..60 deep through bytes fields; payload = inner object + trailing junk / twice / alone'),
    Sub('dict-parser-ladders', check_dict_tree, enum=enum_dict_ladders, classify=classify_dict, shards=(4, 4), case_cpu_s=10,
        timeout_is_violation=True, note='full 2^h-entry dictionaries as ladders h=1..12, with matching and non-matching key lengths'),
    Sub('dict-parser-arbitrary-trees', check_dict_tree, strategy=strat_dict, classify=classify_dict, n=(1500, 40000), shards=(8, 32),
        case_cpu_s=10, timeout_is_violation=True, note='arbitrary binary cell DAGs read as dictionaries (labels valid or not)'),
]
