"""
C10 — dictionaries use the canonical TON Hashmap encoding; parsers accept every valid encoding.
(a) label kind: detect_label_type / write_label == crypto/vm/dict.cpp rules (harness/ref/refdict.py) for every
    (max_len, len, uniform?) triple; deserialize_hml reads every kind back.
(b) HashMap.serialize().hash == hash of the reference canonical Patricia tree.
(c) parser completeness: the same map encoded with an ARBITRARY valid label kind per edge (short / long always, same when
    uniform, incl. zero-length labels at remaining length 0) parses to the same pairs.
(d) HashmapAug(E): leaves equal, extras compared as a multiset (their order is not promised).
(e) pruning: edges replaced by pruned-branch cells => every reader returns exactly the leaves (and extras) of the
    non-pruned part, without raising.
(f) callbacks that call the library again: the x / y deserializers of an augmented walk, the value / key deserializers of a plain
    one parse ANOTHER dictionary (augmented or plain, through parse_hashmap_aug / load_hashmap_aug / load_hashmap_aug_e /
    parse_hashmap / load_hashmap / load_dict) hanging in the leaf value, in the augmentation value of leaves and forks, or both -
    the shape of ShardAccountBlocks / AccountBlock.transactions; optionally after an earlier walk over the same cell that a raising
    callback aborted at its k-th call; and for (b) a value writer that serialises another HashMap (map of maps), twice.
    In (c)/(e) the raw results (value slices) are also printed (describe/look) before they are read.
(g) (b)-(e) once more on dictionaries whose tree is 340..450 forks deep (keys of 341..1023 bits that peel off one per level; free
    label kinds, augmentation with and without references, pruned subtrees hanging off the deep path while the path itself stays):
    the library is entered from a fresh thread, i.e. from a shallow call stack. The writer and both parsers recurse two frames per
    level and reach ~490 levels under the default recursion limit; deeper trees (TON allows 1022) are not asked for - an interpreter
    limit, which the harness does not change.
Not asserted: order of extras; behaviour on a wholly pruned root; invalid encodings; trees deeper than 450 forks.
"""
import hashlib
from collections import Counter
from hypothesis import strategies as st
from harness.core import Sub, Fail, call, exc_sig, describe, look
from harness.gen import dag
from harness.ref import refdict, refcell as rc

RULE = ('(a) case = (max_len, len, fill) enumerated exhaustively (quick: max_len 0..80 and 127,128,255,256,267,511,512,1022,1023; '
        'thorough: all 0..1023, 1 574 400 triples); (b)-(e) case = key width, key set, value bits, per-edge label-kind choices, '
        'prune selectors. non-trivial = (a) len >= 1; (b)-(e) tree with >= 2 label kinds or a non-canonical kind or a pruned '
        'subtree or an augmented tree; distinct = distinct case. (f) case = outer width + key set, inner width + 1-3 inner key sets, '
        'outer / inner kind (aug | plain), where the inner dictionary hangs (x | y | xy), inner entry point 0..2, label-kind choices, '
        'optional abort index of an earlier walk. (g) case = clause (b | c | d | e-plain | e-aug), forks on the longest path (340 / 400 / 450), '
        'direction of the spine (left / right / zigzag / random), longest label between two forks (0-2 bits), tails of the leaf keys (uniform / '
        'mixed), key width (d + 1 .. 490 with free label kinds, up to 1023 with canonical ones), label-kind choices, prune selector')
ASSUMPTIONS = ['refdict.py transcription of dict.cpp append_dict_label(_same) (agrees with the hash pinned in tests/test_hashmap.py)',
               'refcell.py for hashes']


def _label(n, fill):
    if fill == 0:
        return '0' * n
    if fill == 1:
        return '1' * n
    if n < 2:
        return None
    return dag.expand_bits(n - 2, 2, n) + '01'  # guaranteed non-uniform


def check_label(case):
    from pytoniq_core.boc.hashmap.utils import detect_label_type, write_label
    from pytoniq_core.boc.hashmap.parse import deserialize_hml
    from pytoniq_core.boc.builder import Builder
    m, n, fill = case['m'], case['n'], case['f']
    label = _label(n, fill)
    if label is None:
        return None
    exp = refdict.canonical_kind(label, m)
    ok, got = call(detect_label_type, label, m)
    if not ok:
        return Fail('detect_label_type-raises', f'{exc_sig(got)} m={m} n={n}')
    if got != exp:
        return Fail(f'label-kind/{exp}-expected-{got}-chosen', f'max_len={m} len={n} fill={fill}')
    # full bit comparison where the label fits a cell together with nothing else
    expbits = refdict.label_bits(label, m)
    if len(expbits) <= 1023:
        b = Builder()
        ok, r = call(write_label, label, m, b)
        if not ok:
            return Fail('write_label-raises', f'{exc_sig(r)} m={m} n={n}')
        if b.bits.to01() != expbits:
            return Fail(f'label-bits-differ/{exp}', f'm={m} n={n}: {b.bits.to01()[:40]} vs {expbits[:40]}')
    # reader: every valid kind of this label reads back
    for kind in refdict.valid_kinds(label, m):
        bits = refdict.label_bits(label, m, kind)
        if len(bits) > 1023:
            continue
        s = Builder().store_bits(bits).end_cell().begin_parse()
        ok, r = call(deserialize_hml, s, m)
        if not ok:
            return Fail(f'label-reader-raises/{kind}' + ('/at-remaining-0' if m == 0 else ''), f'{exc_sig(r)}: {r!r} m={m} n={n}')
        ln, got = r
        if ln != n or got.to01() != label or s.remaining_bits:
            return Fail(f'label-reader-wrong/{kind}', f'm={m} n={n}: read len {ln}')
    return None


def enum_labels(tier):
    ms = range(1024) if tier == 'thorough' else list(range(81)) + [127, 128, 255, 256, 267, 511, 512, 1022, 1023]
    for m in ms:
        for n in range(m + 1):
            for f in (0, 1, 2):
                if f == 2 and n < 2:
                    continue
                yield {'m': m, 'n': n, 'f': f}


# -- trees ---------------------------------------------------------------------------------------------------

def _mapping(case):
    n = case['n']
    out = {}
    for k, v in case['pairs']:
        out[format(k % (1 << n), '0%db' % n)] = (format(v & 0xFFFF, '016b'), [])
    return out


def _kind_chooser(case):
    sel = case.get('kinds')
    if not sel:
        return None

    def choose(path, label, max_len):
        h = hashlib.sha256(f'{path}/{sel}'.encode()).digest()
        kinds = refdict.valid_kinds(label, max_len)
        c = sel[h[0] % len(sel)]
        if c == 0:
            return None
        return kinds[(c - 1 + h[1]) % len(kinds)]
    return choose


def _pruner(case):
    sel = case.get('prune')
    if not sel:
        return None

    keep = case.get('keep')           # a key (bit string): the edges on the way to it are never pruned

    def pr(path):
        if keep is not None and keep.startswith(path):
            return 0
        h = hashlib.sha256(f'{path}|{sel}'.encode()).digest()
        return (1 + h[1] % 3) if h[0] % 100 < sel[0] else 0
    return pr


def _extra_of(keys, is_leaf, path):
    h = hashlib.sha256(('x' + path + ('L' if is_leaf else 'F')).encode()).digest()
    return format(int.from_bytes(h[:2], 'big'), '016b'), []


def _refleaf(v):
    return rc.RCell(format(v & 0xFFFF, '016b') + '1', [], False)


def _extra_of_r(keys, is_leaf, path):
    # extras whose top bit says 'a reference follows' (block.tlb: ahmn_fork left:^ right:^ extra:Y - the references of Y come
    # AFTER the two children; ahmn_leaf extra:Y value:X - those of Y come BEFORE those of X)
    bits, _ = _extra_of(keys, is_leaf, path)
    return bits, ([_refleaf(int(bits, 2) ^ 0x5555)] if bits[0] == '1' else [])


def _mapping_r(case):
    # values whose top bit says 'a reference follows'
    n = case['n']
    out = {}
    for k, v in case['pairs']:
        v &= 0xFFFF
        out[format(k % (1 << n), '0%db' % n)] = (format(v, '016b'), [_refleaf(v ^ 0x3333)] if v >> 15 else [])
    return out


def _rd_r(s):
    v = s.load_uint(16)
    if v >> 15:
        return v, s.load_ref().hash.hex()
    return v, None


def _exp_r(v, xor):
    return (v, _refleaf(v ^ xor).repr_hash().hex() if v >> 15 else None)


def check_canonical(case):
    from pytoniq_core.boc.hashmap.hashmap import HashMap
    n = case['n']
    mapping = _mapping(case)
    hm = HashMap(n).with_uint_values(16)
    kf = case.get('kf', 0)
    for k, (vb, _) in mapping.items():
        ki = int(k, 2)
        # the key in one of the spellings HashMap.set takes by VALUE: int, bit string, bytes (the only byte spelling of a key
        # whose width is not a multiple of 8 is longer than the key), with or without surplus leading zeros
        key = [ki, k, ki.to_bytes((n + 7) // 8, 'big'), ki.to_bytes((n + 7) // 8 + 1 + ki % 2, 'big'), '0' * (1 + ki % 5) + k, None][kf]
        if kf == 5:                                   # n == 267 and the key is the addr_std encoding of this Address object
            from pytoniq_core.boc.address import Address
            key = Address((((ki >> 256) & 0xFF) - (256 if (ki >> 263) & 1 else 0), (ki % (1 << 256)).to_bytes(32, 'big')))
        ok, r = call(hm.set, key, int(vb, 2))
        if not ok:
            if kf in (0, 1) or (kf == 2 and n % 8 == 0):
                return Fail(f'set-raises-on-valid-key/form{kf}', f'{exc_sig(r)} n={n}')
            hm.set(ki, int(vb, 2))              # refusing an over-long spelling is fine
    try:
        ref = refdict.build(mapping, n)
    except rc.RefCellError:
        return None
    ok, cell = call(hm.serialize)
    if not ok:
        return Fail(f'serialize-raises/{type(cell).__name__}', f'{exc_sig(cell)} n={n}')
    if cell.hash != ref.repr_hash():
        kinds = []
        refdict.decode(ref, n, kinds=kinds)
        return Fail('hash-differs-from-canonical-tree', f'n={n} keys={sorted(mapping)[:4]} kinds in reference tree={Counter(kinds)}')
    # the same map object after an update: one value overwritten, then one key added; each time the cell must be the canonical
    # tree of the map as it is NOW
    k0 = sorted(mapping)[0]
    v_new = (int(mapping[k0][0], 2) + 1) & 0xFFFF
    mapping2 = dict(mapping)
    mapping2[k0] = (format(v_new, '016b'), [])
    hm.set(int(k0, 2), v_new)
    steps = [('value-overwritten', dict(mapping2))]
    extra = format((int(k0, 2) ^ 1) if n else 0, '0%db' % n) if n else None
    if extra is not None and extra not in mapping2:
        mapping2 = dict(mapping2)
        mapping2[extra] = (format(0xBEEF, '016b'), [])
        steps.append(('key-added', mapping2))
    # values the writer encodes in a few bits although they are None / falsy: addr_none (00) among addresses, "no reference" (0)
    # among optional references - leaves like any other, the tree is the canonical tree of those bit strings
    if len(mapping) <= 12 and n + 300 <= 1023:
        from pytoniq_core.boc.address import Address
        hma = HashMap(n).with_address_values()
        hmm = HashMap(n, value_serializer=lambda src, dest: dest.store_maybe_ref(src))
        mpa, mpm = {}, {}
        for k, (vb, _) in mapping.items():
            v = int(vb, 2)
            if v % 3 == 0:
                hma.set(int(k, 2), None)
                mpa[k] = ('00', [])
            else:
                acc = hashlib.sha256(vb.encode()).digest()
                hma.set(int(k, 2), Address((v % 5 - 2, acc)))
                mpa[k] = ('100' + format((v % 5 - 2) & 0xFF, '08b') + ''.join(format(x, '08b') for x in acc), [])
            if v % 2 == 0:
                hmm.set(int(k, 2), None)
                mpm[k] = ('0', [])
            else:
                leafc = rc.RCell(vb, [], False)
                hmm.set(int(k, 2), dag.lib_from_rcell(leafc))
                mpm[k] = ('1', [leafc])
        for what, h_, mp_ in (('address-or-addr_none', hma, mpa), ('maybe-ref', hmm, mpm)):
            ok, c_ = call(h_.serialize)
            if not ok or c_ is None or c_.hash != refdict.build(mp_, n).repr_hash():
                return Fail(f'hash-differs-from-canonical-tree/values-{what}', f'n={n} keys={sorted(mp_)[:4]}: {c_!r}'[:300])
    # values that are mutable objects of the caller, changed IN PLACE between two serialisations of the same map object
    if len(mapping) <= 8:
        boxes = {int(k, 2): [int(vb, 2)] for k, (vb, _) in mapping.items()}
        hmb = HashMap(n, value_serializer=lambda src, dest: dest.store_uint(src[0], 16))
        for ki, bx in boxes.items():
            hmb.set(ki, bx)
        ok, cb = call(hmb.serialize)
        if ok and cb is not None and cb.hash == ref.repr_hash():
            kx = sorted(boxes)[-1]
            boxes[kx][0] ^= 0x0101
            mp3 = {format(ki, '0%db' % n): (format(bx[0], '016b'), []) for ki, bx in boxes.items()}
            ok, cb2 = call(hmb.serialize)
            if not ok or cb2 is None or cb2.hash != refdict.build(mp3, n).repr_hash():
                return Fail('hash-differs-from-canonical-tree/after-update/value-changed-in-place', f'n={n}: serialised, changed the value object '
                            f'of key {kx} in place, serialised again')
    for i, (what, mp) in enumerate(steps):
        if what == 'key-added':
            hm.set(int(extra, 2), 0xBEEF)
        try:
            ref2 = refdict.build(mp, n)
        except rc.RefCellError:
            return None
        ok, cell2 = call(hm.serialize)
        if not ok:
            return Fail(f'serialize-raises/after-update/{type(cell2).__name__}', f'{exc_sig(cell2)} n={n}')
        if cell2.hash != ref2.repr_hash():
            return Fail(f'hash-differs-from-canonical-tree/after-update/{what}', f'n={n}: serialised, {what}, serialised again')
    return None


def check_parsers(case):
    from pytoniq_core.boc.hashmap.hashmap import HashMap
    from pytoniq_core.boc.hashmap.parse import parse_hashmap
    from pytoniq_core.boc.builder import Builder
    n = case['n']
    mapping = _mapping(case)
    prune = _pruner(case)
    info = {}
    try:
        ref = refdict.build(mapping, n, kind_of=_kind_chooser(case), prune=prune, info=info)
    except rc.RefCellError:
        return None
    keep = set(info['keys'])
    exp = {int(k, 2): int(mapping[k][0], 2) for k in keep}
    cell = dag.lib_from_rcell(ref)
    des = lambda s: s.load_uint(16)
    tag = ('pruned' if prune and len(keep) < len(mapping) else 'full') + ('/noncanonical' if case.get('kinds') else '/canonical')
    readers = {
        'parse_hashmap': lambda: {int(k, 2): des(v) for k, v in parse_hashmap(cell.begin_parse(), n).items()},
        'HashMap.parse': lambda: HashMap.parse(cell.begin_parse(), n, None, des),
        'load_hashmap': lambda: cell.begin_parse().load_hashmap(n, value_deserializer=des),
        'load_dict': lambda: Builder().store_dict(cell).end_cell().begin_parse().load_dict(n, value_deserializer=des),
        'from_cell': lambda: {k: des(v) for k, v in HashMap.from_cell(cell, n).map.items()},
    }

    def _inline_behind_prefix():
        # the root edge stored INLINE (`Hashmap n X` as in validators#11) behind a prefix the caller has already consumed
        b = Builder().store_bits('1101').store_ref(cell)
        b.store_cell(cell)
        s = b.end_cell().begin_parse()
        s.load_bits(4)
        s.load_ref()
        return s.load_hashmap(n, value_deserializer=des)
    if not cell.type_ != -1 and len(cell.bits) + 4 <= 1023 and len(cell.refs) + 1 <= 4:
        readers['load_hashmap@inline-behind-prefix'] = _inline_behind_prefix
    readers['parse_hashmap-second-time'] = readers['parse_hashmap']          # the same cell object parsed again

    def _shown(d):
        # the caller logs what the parser returned (value slices) before reading it: formatting is not an operation on the result
        if len(d) % 2:
            describe(d, *list(d.values())[:4])
        else:
            look(d)
        return d
    readers['parse_hashmap/result-printed-before-read'] = lambda: {int(k, 2): des(v) for k, v in _shown(parse_hashmap(cell.begin_parse(), n)).items()}
    readers['from_cell/result-printed-before-read'] = lambda: {k: des(v) for k, v in _shown(HashMap.from_cell(cell, n).map).items()}
    for name, rd in readers.items():
        ok, got = call(rd)
        if not ok:
            return Fail(f'parser-raises/{tag}/{type(got).__name__}', f'{name}: {exc_sig(got)}: {got!r} n={n} keys={sorted(mapping)[:4]}')
        if got != exp:
            return Fail(f'parser-result-differs/{tag}', f'{name}: n={n} expected {sorted(exp.items())[:5]} got {sorted(got.items())[:5] if isinstance(got, dict) else got!r}')
    # a dictionary whose ROOT cell is a pruned branch, stored as an optional reference in front of another dictionary and a marker:
    # whatever is reported for the pruned one, the fields behind it are read from where they are
    if exp and cell.type_ == -1:
        pr = dag.lib_from_rcell(rc.pruned_branch_of(ref, 1 + len(exp) % 3)) if ref.level() == 0 else None
        if pr is not None:
            marker = Builder().store_uint(0xC0FFEE, 24).end_cell()
            for rd_name in ('load_dict', 'preload+load'):
                s_ = Builder().store_dict(pr).store_dict(cell).store_ref(marker).end_cell().begin_parse()
                if rd_name == 'load_dict':
                    ok, first = call(s_.load_dict, n, None, des)
                else:
                    call(s_.preload_dict, n, None, des)
                    ok, first = call(s_.load_dict, n, None, des)
                if not ok:
                    return Fail(f'parser-raises/pruned-root/{type(first).__name__}', f'{rd_name}: {exc_sig(first)}: {first!r}')
                ok, second = call(s_.load_dict, n, None, des)
                if not ok or second != exp:
                    return Fail('parser-result-differs/dictionary-behind-a-pruned-one', f'{rd_name}: n={n}: the dictionary that follows a wholly '
                                f'pruned one reads as {second if not ok else (sorted(second.items())[:4] if isinstance(second, dict) else second)!r}')
                ok, third = call(s_.load_ref)
                if not ok or third.hash != marker.hash or s_.remaining_bits or s_.remaining_refs:
                    return Fail('parser-result-differs/field-behind-a-pruned-dictionary', f'{rd_name}: n={n}: {third!r}, '
                                f'{s_.remaining_bits} bits / {s_.remaining_refs} refs left')
    # a map READ from any valid encoding and written again is the canonical tree of that map (whatever label kinds the source used)
    if exp:
        try:
            canon = refdict.build({format(k, '0%db' % n): (format(v, '016b'), []) for k, v in exp.items()}, n)
        except rc.RefCellError:
            canon = None
        if canon is not None:
            for how, mk in (('from_cell', lambda: HashMap.from_cell(cell, n).serialize()),
                            ('from_cell+value_serializer', lambda: _reser(HashMap.from_cell(cell, n))),
                            ('parsed-dict-into-new-HashMap', lambda: HashMap(n, map_=dict(HashMap.parse(cell.begin_parse(), n, None, des))).with_uint_values(16).serialize())):
                ok, c2 = call(mk)
                if not ok:
                    return Fail(f'reserialize-parsed-map-raises/{how}/{type(c2).__name__}', f'{exc_sig(c2)}: {c2!r} n={n}')
                if c2 is None or c2.hash != canon.repr_hash():
                    return Fail(f'reserialized-parsed-map-not-canonical/{how}/{tag}', f'n={n} keys={sorted(exp)[:5]}')
    return None


def _reser(hm):
    hm.value_serializer = lambda src, dest: dest.store_slice(src)
    return hm.serialize()


def check_aug(case):
    from pytoniq_core.boc.hashmap.parse import parse_hashmap_aug
    from pytoniq_core.boc.builder import Builder
    n = case['n']
    with_refs = bool(case.get('refs'))
    mapping = _mapping_r(case) if with_refs else _mapping(case)
    prune = _pruner(case)
    info = {}
    try:
        ref = refdict.build(mapping, n, kind_of=_kind_chooser(case), extra_of=_extra_of_r if with_refs else _extra_of, prune=prune, info=info)
    except rc.RefCellError:
        return None
    keep = set(info['keys'])
    if with_refs:
        exp = {int(k, 2): _exp_r(int(mapping[k][0], 2), 0x3333) for k in keep}
        exp_extras = Counter(_exp_r(int(eb, 2), 0x5555) for _, eb in info['extras'])
        xd = yd = _rd_r
    else:
        exp = {int(k, 2): int(mapping[k][0], 2) for k in keep}
        exp_extras = Counter(int(eb, 2) for _, eb in info['extras'])
        xd = lambda s: s.load_uint(16)
        yd = lambda s: s.load_uint(16)
    cell = dag.lib_from_rcell(ref)
    tag = ('pruned' if prune and len(keep) < len(mapping) else 'full') + ('/extras-with-refs' if with_refs else '')
    readers = {
        'parse_hashmap_aug': lambda: parse_hashmap_aug(cell.begin_parse(), n, xd, yd),
        'load_hashmap_aug': lambda: cell.begin_parse().load_hashmap_aug(n, xd, yd),
        'load_hashmap_aug_e': lambda: Builder().store_bit(1).store_ref(cell).end_cell().begin_parse().load_hashmap_aug_e(n, xd, yd),
    }
    for name, rd in readers.items():
        ok, got = call(rd)
        if not ok:
            return Fail(f'aug-parser-raises/{tag}/{type(got).__name__}', f'{name}: {exc_sig(got)}: {got!r} n={n}')
        if not (isinstance(got, tuple) and len(got) == 2):
            return Fail(f'aug-parser-shape/{tag}', f'{name}: {got!r}')
        d, extras = got
        if d != exp:
            return Fail(f'aug-leaves-differ/{tag}', f'{name}: n={n} expected {sorted(exp.items())[:5]} got {sorted(d.items())[:5]}')
        if Counter(extras) != exp_extras:
            return Fail(f'aug-extras-differ/{tag}', f'{name}: n={n} expected {sorted(exp_extras.items())[:6]} got {sorted(Counter(extras).items())[:6]}')
    return None


# -- callbacks that call the library again: dictionaries whose values / extras hold other dictionaries ------------------------

def _freeze(res, aug):
    if aug:
        d, ex = res
        return (tuple(sorted(d.items())), tuple(sorted(ex)))
    return tuple(sorted(res.items()))


def check_nested(case):
    """(d)/(c) with deserializer callbacks that themselves parse a dictionary (the shape of ShardAccountBlocks: HashmapAugE 256
    AccountBlock .., AccountBlock holding `transactions:(HashmapAug 64 ..)`; of a dictionary of dictionaries; of an
    ExtraCurrencyCollection inside the extra of an augmented dictionary). Outer and inner trees are built by the reference with free
    label kinds; the inner one hangs behind a 'present' bit + reference in the leaf value (x), in the augmentation value (y), or both.
    History (plain data in the case): an earlier walk that was aborted by a raising callback at the k-th call."""
    from pytoniq_core.boc.hashmap.hashmap import HashMap
    from pytoniq_core.boc.hashmap.parse import parse_hashmap_aug, parse_hashmap
    from pytoniq_core.boc.builder import Builder
    n, n2 = case['n'], case['n2']
    o_aug, i_aug = case['outer'] == 'aug', case['innerk'] == 'aug'
    where = case['where'] if o_aug else 'x'
    ep = case['ep']
    chooser = _kind_chooser(case)
    # inner dictionaries (reference trees, expected parse results, library cells)
    inner = []
    for prs in case['inner']:
        mp = {format(k % (1 << n2), '0%db' % n2): (format(v & 0xFFFF, '016b'), []) for k, v in prs}
        info = {}
        try:
            t = refdict.build(mp, n2, kind_of=chooser, extra_of=_extra_of if i_aug else None, info=info)
        except rc.RefCellError:
            return None
        d = {int(k, 2): int(vb, 2) for k, (vb, _) in mp.items()}
        inner.append((t, _freeze((d, [int(eb, 2) for _, eb in info['extras']]) if i_aug else d, i_aug), mp))
    pick = lambda v: inner[v % len(inner)]
    mapping = {}
    for k, v in case['pairs']:
        v &= 0xFFFF
        mapping[format(k % (1 << n), '0%db' % n)] = (format(v, '016b') + '1', [pick(v)[0]]) if 'x' in where else (format(v, '016b'), [])

    def extra_of(keys, is_leaf, path):
        bits, _ = _extra_of(keys, is_leaf, path)
        return (bits + '1', [pick(int(bits, 2))[0]]) if 'y' in where else (bits, [])
    info = {}
    try:
        ref = refdict.build(mapping, n, kind_of=chooser, extra_of=extra_of if o_aug else None, info=info)
    except rc.RefCellError:
        return None
    cell = dag.lib_from_rcell(ref)
    u16 = lambda s: s.load_uint(16)

    def rd_inner(s):
        # the inner dictionary through one of the library's entry points (the 'present' bit is 1 in every generated tree)
        if i_aug:
            if ep == 0:
                s.load_bit()
                return _freeze(parse_hashmap_aug(s.load_ref().begin_parse(), n2, u16, u16), True)
            if ep == 1:
                s.load_bit()
                return _freeze(s.load_ref().begin_parse().load_hashmap_aug(n2, u16, u16), True)
            return _freeze(s.load_hashmap_aug_e(n2, u16, u16), True)
        if ep == 0:
            s.load_bit()
            return _freeze({int(k, 2): u16(v) for k, v in parse_hashmap(s.load_ref().begin_parse(), n2).items()}, False)
        if ep == 1:
            s.load_bit()
            return _freeze(s.load_ref().begin_parse().load_hashmap(n2, None, u16), False)
        return _freeze(s.load_dict(n2, None, u16), False)

    with_inner = lambda s: (s.load_uint(16), rd_inner(s))
    xd = with_inner if 'x' in where else u16
    yd = with_inner if 'y' in where else u16
    exp = {int(k, 2): ((int(vb[:16], 2), pick(int(vb[:16], 2))[1]) if 'x' in where else int(vb, 2)) for k, (vb, _) in mapping.items()}
    exp_extras = Counter(((int(eb[:16], 2), pick(int(eb[:16], 2))[1]) if 'y' in where else int(eb, 2)) for _, eb in info.get('extras', []))
    tag = f'{case["outer"]}-holding-{case["innerk"]}/in-{where}'

    # history: a walk over the same cell that a raising callback aborted at its k-th call
    ab = case.get('abort')
    if ab:
        cnt = [0]

        def boom(s):
            cnt[0] += 1
            if cnt[0] >= ab:
                raise KeyError('callback gives up')
            return with_inner(s) if ('y' in where or not o_aug) else u16(s)
        if o_aug:
            call(parse_hashmap_aug, cell.begin_parse(), n, xd, boom)
            call(parse_hashmap_aug, cell.begin_parse(), n, boom if 'x' in where else xd, yd)
        else:
            call(cell.begin_parse().load_hashmap, n, None, boom)

    if o_aug:
        readers = {
            'parse_hashmap_aug': lambda: parse_hashmap_aug(cell.begin_parse(), n, xd, yd),
            'load_hashmap_aug': lambda: cell.begin_parse().load_hashmap_aug(n, xd, yd),
            'load_hashmap_aug_e': lambda: Builder().store_bit(1).store_ref(cell).end_cell().begin_parse().load_hashmap_aug_e(n, xd, yd),
        }
    else:
        # a key_deserializer that looks its key up in another dictionary it parses on the spot
        t0, f0, _ = inner[0]
        c0 = dag.lib_from_rcell(t0)
        s0 = lambda: Builder().store_bit(1).store_ref(c0).end_cell().begin_parse()
        kd = lambda bits: (int(bits, 2), rd_inner(s0()))
        unkd = lambda d: {k[0]: v for k, v in d.items()} if all(isinstance(k, tuple) and len(k) == 2 and k[1] == f0 for k in d) else d
        readers = {
            'HashMap.parse': lambda: HashMap.parse(cell.begin_parse(), n, None, xd),
            'load_hashmap': lambda: cell.begin_parse().load_hashmap(n, None, xd),
            'load_dict': lambda: Builder().store_dict(cell).end_cell().begin_parse().load_dict(n, None, xd),
            'preload_dict': lambda: Builder().store_dict(cell).end_cell().begin_parse().preload_dict(n, None, xd),
            'load_hashmap+key_deserializer': lambda: unkd(cell.begin_parse().load_hashmap(n, kd, xd)),
            'from_cell': lambda: {k: xd(v) for k, v in HashMap.from_cell(cell, n).map.items()},
        }
    for name, rd in readers.items():
        ok, got = call(rd)
        if not ok:
            return Fail(f'nested-parser-raises/{tag}/{type(got).__name__}', f'{name}: {exc_sig(got)}: {got!r} n={n} n2={n2}')
        if o_aug:
            if not (isinstance(got, tuple) and len(got) == 2):
                return Fail(f'aug-parser-shape/{tag}', f'{name}: {got!r}'[:300])
            d, extras = got
        else:
            d, extras = got, None
        if d != exp:
            bad = [k for k in exp if not isinstance(d, dict) or d.get(k) != exp[k]][:2]
            return Fail(f'nested-leaves-differ/{tag}', f'{name}: n={n} n2={n2} inner entry point {ep}: keys {bad or sorted(d)[:3]}: expected '
                        f'{[exp[k] for k in bad]} got {[d.get(k) for k in bad] if isinstance(d, dict) else d!r}'[:600])
        if extras is not None and Counter(extras) != exp_extras:
            return Fail(f'nested-extras-differ/{tag}', f'{name}: n={n} n2={n2}: expected {sorted(exp_extras.items())[:3]} got '
                        f'{sorted(Counter(extras).items())[:3]}'[:600])
    # (b) with a value writer that serialises another map: the outer cell is the canonical tree over the canonical inner trees
    if not o_aug and not i_aug and where == 'x':
        hms = {}
        for i, (_, _, mp) in enumerate(inner):
            h = HashMap(n2).with_uint_values(16)
            for k, (vb, _) in mp.items():
                h.set(int(k, 2), int(vb, 2))
            hms[i] = h
        outer = HashMap(n, value_serializer=lambda src, dest: dest.store_uint(src[0], 16).store_dict(src[1].serialize()))
        cmap = {}
        try:
            canon_inner = [refdict.build(mp, n2) for _, _, mp in inner]
            for k, (vb, _) in mapping.items():
                v = int(vb[:16], 2)
                outer.set(int(k, 2), (v, hms[v % len(inner)]))
                cmap[k] = (vb, [canon_inner[v % len(inner)]])
            canon = refdict.build(cmap, n)
        except rc.RefCellError:
            return None
        for turn in ('first', 'second'):
            ok, c = call(outer.serialize)
            if not ok:
                return Fail(f'serialize-raises/map-of-maps/{type(c).__name__}', f'{exc_sig(c)}: {c!r} n={n} n2={n2}')
            if c is None or c.hash != canon.repr_hash():
                return Fail('hash-differs-from-canonical-tree/map-of-maps', f'n={n} n2={n2} ({turn} serialisation of the same objects)')
    return None


@st.composite
def st_nested(draw):
    n = draw(st.one_of(st.sampled_from([1, 2, 3, 8, 32, 64, 256]), st.integers(1, 600)))
    n2 = draw(st.one_of(st.sampled_from([1, 2, 8, 32, 64, 256]), st.integers(1, 300)))

    def keys(w, cnt):
        base = draw(st.integers(0, (1 << w) - 1))
        ks = st.one_of(st.integers(0, (1 << w) - 1),
                       st.integers(0, min(w, 8)).flatmap(lambda sh: st.integers(0, (1 << sh) - 1).map(lambda lo: ((base >> sh) << sh) | lo)),
                       st.sampled_from([0, (1 << w) - 1, 1 << (w - 1), 1]))
        return [[draw(ks), draw(st.integers(0, 65535))] for _ in range(cnt)]
    case = {'n': n, 'n2': n2, 'pairs': keys(n, draw(st.integers(1, 10 if n > 3 else min(8, 1 << n)))),
            'inner': [keys(n2, draw(st.integers(1, 6 if n2 > 2 else min(4, 1 << n2)))) for _ in range(draw(st.integers(1, 3)))],
            'outer': draw(st.sampled_from(['aug', 'aug', 'plain'])), 'innerk': draw(st.sampled_from(['aug', 'aug', 'plain'])),
            'where': draw(st.sampled_from(['x', 'y', 'xy'])), 'ep': draw(st.integers(0, 2))}
    if draw(st.booleans()):
        case['kinds'] = draw(st.lists(st.integers(0, 3), min_size=1, max_size=4))
    if draw(st.integers(0, 3)) == 0:
        case['abort'] = draw(st.integers(1, 6))
    return case


def classify_nested(case):
    yield f'{case["outer"]}-holding-{case["innerk"]}'
    yield 'inner-in=' + (case['where'] if case['outer'] == 'aug' else 'x')
    yield 'inner-entry-point=%d' % case['ep']
    if case.get('abort'):
        yield 'after-an-aborted-walk'
    if case.get('kinds'):
        yield 'free-label-kinds'
    yield 'outer-entries=' + ('1' if len({k % (1 << case['n']) for k, _ in case['pairs']}) == 1 else '2+')



# -- dictionaries that are hundreds of forks deep --------------------------------------------------------------------------------

def _shallow(fn, *a):
    """fn(*a) on a thread of its own: the library is entered from a call stack a few frames deep, however deep the harness's own
    stack is at this point (Hypothesis, replay, a thread pool ...). Exceptions come back with their traceback."""
    import threading
    box = []

    def run():
        try:
            box.append((True, fn(*a)))
        except BaseException as e:
            box.append((False, e))
    t = threading.Thread(target=run, daemon=True)
    t.start()
    t.join()
    if not box[0][0]:
        raise box[0][1]
    return box[0][1]


def _deep_keys(d, n, side, gap, tail, seed):
    """key set (bit strings of length n) whose Patricia tree has a spine of d forks: at each of them one child continues the spine, the
    other is a leaf (sometimes a fork of two leaves); `gap` = longest label between two forks of the spine, `tail` = how the leaves'
    keys end (uniform tails make hml_same candidates). The last key is the one at the end of the spine."""
    stream, blocks = [], [0]

    def nxt(mod):
        if not stream:
            blocks[0] += 1
            stream.extend(hashlib.sha256(f'{d}/{n}/{side}/{gap}/{tail}/{seed}/{blocks[0]}'.encode()).digest())
        return stream.pop() % mod

    def fill(length, i):
        if tail == 'zeros':
            return '0' * length
        if tail == 'ones':
            return '1' * length
        if tail == 'alternate':
            return ('0' if i % 2 else '1') * length
        return ''.join('01'[nxt(2)] for _ in range(length))
    keys = []
    prefix = ''
    budget = n - d
    for i in range(d):
        li = min(budget, nxt(gap + 1)) if gap else 0
        budget -= li
        prefix += ''.join('01'[nxt(2)] for _ in range(li))
        s = {'left': '0', 'right': '1', 'zigzag': '01'[i % 2]}.get(side) or '01'[nxt(2)]
        off = prefix + ('1' if s == '0' else '0')
        t = fill(n - len(off), i)
        keys.append(off + t)
        if t and nxt(5) == 0:
            keys.append(off + t[:-1] + ('1' if t[-1] == '0' else '0'))
        prefix += s
    keys.append(prefix + fill(n - len(prefix), d))
    return keys


def _deep_case(case):
    keys = _deep_keys(case['deep'], case['n'], case['side'], case['gap'], case['tail'], case['seed'])
    full = {'n': case['n'], 'pairs': [[int(k, 2), (i * 257 + case['seed']) & 0xFFFF] for i, k in enumerate(keys)]}
    for opt in ('kinds', 'refs', 'kf'):
        if opt in case:
            full[opt] = case[opt]
    if 'prune' in case:
        full['prune'] = case['prune']
        full['keep'] = keys[-1]                 # subtrees hanging off the spine are pruned, the spine itself stays as deep as it is
    return full


DEEP_CHECKS = {'b': lambda: check_canonical, 'c': lambda: check_parsers, 'd': lambda: check_aug}


def check_deep(case):
    """(b)-(e) for a dictionary whose tree is hundreds of forks deep (TON allows 1022; the library walks the tree recursively, two
    Python frames per level in the writer and in both parsers, and gets to ~490 levels under the default recursion limit when it is
    entered from a shallow stack - depths up to 450 are asked for here). The trees come from the reference builder (free label kinds,
    augmentation, pruned subtrees hanging off the deep path), the clause checks are the ones of (b)-(e), entered from a fresh thread."""
    full = _deep_case(case)
    try:    # the generated tree must exist (no cell overflow), otherwise the clause checks would pass without looking at anything
        refdict.build(_mapping_r(full) if full.get('refs') else _mapping(full), full['n'], kind_of=_kind_chooser(full),
                      extra_of=None if case['what'] != 'd' else _extra_of_r if full.get('refs') else _extra_of)
    except rc.RefCellError as e:
        from harness.core import HarnessError
        raise HarnessError(f'deep case does not fit its cells: {case}: {e}')
    res = _shallow(DEEP_CHECKS[case['what']](), full)
    if res is not None:
        return Fail('deep-tree/' + res.signature, f'{case}: {res.detail}'[:1500])
    return None


def enum_deep(tier):
    # (gap, tail, n): free label kinds need n <= 490 (an hml_short label of n - 1 bits + extra + value must fit a cell)
    narrow = lambda d: ((0, 'zeros', d + 1), (0, 'mixed', d + 1), (1, 'alternate', min(490, d + 60)), (2, 'mixed', min(490, d + 40)))
    wide = lambda d: ((1, 'ones', 1023), (2, 'mixed', min(960, 2 * d)), (0, 'zeros', 1000))
    sides = ('left', 'right', 'zigzag', 'random')
    if tier == 'thorough':
        grid = [(what, d, side, p) for what in ('b', 'b-wide', 'c', 'c-canonical-wide', 'd', 'd-refs', 'e-plain', 'e-aug')
                for d in (300, 340, 360, 400, 420, 450) for side in sides for p in range(3 if 'wide' in what else 4)]
    else:           # every clause at two depths at least, every side and label pattern; one or two cases per shard
        grid = [('b', 340, 'left', 1), ('b', 450, 'zigzag', 3), ('b-wide', 400, 'random', 0), ('b-wide', 450, 'right', 1),
                ('c', 340, 'right', 0), ('c', 400, 'random', 2), ('c', 450, 'left', 1), ('c-canonical-wide', 400, 'zigzag', 2),
                ('c-canonical-wide', 450, 'random', 1), ('d', 340, 'zigzag', 3), ('d', 450, 'right', 0), ('d-refs', 400, 'left', 2),
                ('e-plain', 340, 'random', 1), ('e-plain', 450, 'zigzag', 0), ('e-aug', 400, 'right', 3), ('e-aug', 450, 'left', 2)]
    for i, (what, d, side, p) in enumerate(grid):
        gap, tail, n = (wide if 'wide' in what else narrow)(d)[p]
        case = {'what': what[0] if what[0] != 'e' else ('c' if what == 'e-plain' else 'd'), 'deep': d, 'n': n, 'side': side, 'gap': gap,
                'tail': tail, 'seed': i}
        if what == 'b' or what == 'b-wide':
            case['kf'] = i % 2
        elif 'wide' not in what:
            case['kinds'] = [[1, 2, 3, 0], [2], [3, 1], [1], [0, 3]][i % 5]
        if what == 'd-refs' or (what == 'e-aug' and i % 2):
            case['refs'] = 1
        if what[0] == 'e':
            case['prune'] = [[25, 50][i % 2], i]
        yield case


def classify_deep(case):
    yield 'clause=' + ('e' if 'prune' in case else case['what']) + ('/augmented' if case['what'] == 'd' else '')
    yield 'forks-on-the-longest-path=%d' % case['deep']
    yield 'spine=' + case['side']
    yield 'labels-between-forks<=%d' % case['gap']
    if case.get('kinds'):
        yield 'free-label-kinds'
    if case.get('refs'):
        yield 'values-and-extras-carry-references'


WIDTHS = [1, 2, 3, 4, 5, 8, 16, 32, 64, 256, 267, 267, 900]


@st.composite
def st_tree(draw, kinds=False, prune=False, refs=False, keyforms=False):
    n = draw(st.one_of(st.sampled_from(WIDTHS), st.integers(1, 990)))
    cnt = draw(st.integers(1, 24 if n > 4 else min(24, 1 << n)))
    base = draw(st.integers(0, (1 << n) - 1))
    keyst = st.one_of(st.integers(0, (1 << n) - 1),
                      st.integers(0, min(n, 10)).flatmap(lambda sh: st.integers(0, (1 << sh) - 1).map(lambda lo: ((base >> sh) << sh) | lo)),
                      st.sampled_from([0, (1 << n) - 1, 1 << (n - 1), (1 << (n - 1)) - 1, 1, 2]))
    pairs = [[draw(keyst), draw(st.integers(0, 65535))] for _ in range(cnt)]
    case = {'n': n, 'pairs': pairs}
    if kinds:
        case['kinds'] = draw(st.lists(st.integers(0, 3), min_size=1, max_size=4))
    if prune:
        case['prune'] = [draw(st.sampled_from([10, 25, 50])), draw(st.integers(0, 1000))]
    if refs and draw(st.booleans()):
        case['refs'] = 1
    if keyforms:
        case['kf'] = draw(st.sampled_from([0, 0, 1, 2, 3, 4]))
        if n == 267 and draw(st.booleans()):
            # keys that ARE addr_std encodings (tag 100, no anycast, int8 workchain, 256-bit account), given as Address objects
            case['kf'] = 5
            case['pairs'] = [[(0b100 << 264) | (k % (1 << 264)), v] for k, v in case['pairs']]
    return case


def classify(case):
    if 'm' in case:
        yield 'fill=%d' % case['f']
        lab = _label(case['n'], case['f'])
        if lab is not None:
            yield 'kind=' + refdict.canonical_kind(lab, case['m'])
            k = case['m'].bit_length()
            if case['n'] == k:
                yield 'tie:len==k'
            if k == 2 * case['n'] - 1:
                yield 'tie:k==2len-1'
        return
    n = case['n']
    yield 'n=' + (str(n) if n <= 8 else '9-64' if n <= 64 else '65-267' if n <= 267 else '268+')
    cnt = len({k % (1 << n) for k, _ in case['pairs']})
    yield 'entries=' + ('1' if cnt == 1 else '2-8' if cnt <= 8 else '9+')
    if case.get('kinds'):
        yield 'free-label-kinds'
    if case.get('prune'):
        yield 'pruning'
    if case.get('refs'):
        yield 'values-and-extras-carry-references'
    if 'kf' in case:
        yield 'key-spelling=' + ['int', 'bits', 'bytes-ceil', 'bytes-long', 'bits-long', 'address-object'][case['kf']]
    try:
        kinds = []
        refdict.decode(refdict.build(_mapping(case), n, kind_of=_kind_chooser(case)), n, kinds=kinds)
        yield 'kinds-present=' + ''.join(sorted({k[0] for k in kinds}))
    except Exception:
        pass


def nt(case):
    if 'm' in case:
        return case['n'] >= 1
    return True


SUBCHECKS = [
    Sub('a-label-kind-all-triples', check_label, enum=enum_labels, classify=classify, nontrivial=nt, shards=(16, 48),
        exhaustive=True, note='every (max_len, len, fill): quick grid / thorough complete'),
    Sub('b-canonical-tree-hash', check_canonical, strategy=lambda tier: st_tree(keyforms=True), classify=classify, nontrivial=nt,
        n=(1500, 40000), shards=(8, 32)),
    Sub('c-parsers-free-label-kinds', check_parsers, strategy=lambda tier: st_tree(kinds=True), classify=classify, nontrivial=nt,
        n=(1500, 30000), shards=(8, 32)),
    Sub('d-augmented', check_aug, strategy=lambda tier: st_tree(kinds=True, refs=True), classify=classify, nontrivial=nt,
        n=(1000, 20000), shards=(8, 32)),
    Sub('e-pruned-plain', check_parsers, strategy=lambda tier: st_tree(kinds=True, prune=True), classify=classify, nontrivial=nt,
        n=(1000, 20000), shards=(8, 32)),
    Sub('e-pruned-augmented', check_aug, strategy=lambda tier: st_tree(prune=True, refs=True), classify=classify, nontrivial=nt,
        n=(1000, 20000), shards=(8, 32)),
    Sub('f-callbacks-parse-dictionaries', check_nested, strategy=lambda tier: st_nested(), classify=classify_nested, nontrivial=lambda c: True,
        n=(400, 15000), shards=(8, 32),
        note='x / y / key / value callbacks that parse another (augmented or plain) dictionary through each entry point; optional earlier '
             'walk aborted by a raising callback; value writer that serialises another map'),
    Sub('g-deep-trees', check_deep, enum=enum_deep, classify=classify_deep, nontrivial=lambda c: True, shards=(8, 16), case_cpu_s=60.0,
        note='(b)-(e) on dictionaries with a path of 340..450 forks (keys of 341..1023 bits), trees from the reference builder, the library entered '
             'from a fresh thread (a shallow stack)'),
]

# the same generated cases, several at a time, checked by threads that run at the same time (core.run_overlapping): per-call state
# kept in a place two calls share shows only there
SUBCHECKS.append(__import__('harness.core', fromlist=['overlapped']).overlapped(next(s for s in SUBCHECKS if s.name == 'b-canonical-tree-hash'), k=3, n=(30, 1000), name='two-threads-writer'))
SUBCHECKS.append(__import__('harness.core', fromlist=['overlapped']).overlapped(next(s for s in SUBCHECKS if s.name == 'c-parsers-free-label-kinds'), k=3, n=(30, 1000), name='two-threads-parsers'))
SUBCHECKS.append(__import__('harness.core', fromlist=['overlapped']).overlapped(next(s for s in SUBCHECKS if s.name == 'd-augmented'), k=3, n=(30, 1000), name='two-threads-augmented'))
