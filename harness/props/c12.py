"""C12 — block signature sets are accepted only with a genuine validator supermajority, and always then.

Library entry point (pytoniq_core/proof/check_proof.py):
    check_block_signatures(nodes: list[ValidatorDescr], signatures: list[dict], blk: BlockIdExt)
      nodes       ValidatorDescr(type_, SigPubKey(pubkey: 32 bytes), weight)          (tlb/config.py)
      signatures  [{'node_id_short': <64 hex chars>, 'signature': <64 bytes>}, ...]   (= the parsed form of
                  liteServer.signature node_id_short:int256 signature:bytes that TlSchemas.deserialize returns)
      blk         BlockIdExt                                                           (tl/block.py)
    returns for "accepted", raises for "rejected" (any exception counts as a rejection).

Oracle, by construction of the case (the harness creates every key and knows what each list entry is):
    accept  <=>  validator set non-empty  and  every entry is a valid signature over THIS block's id
                 and every signer is a member  and  signers are pairwise distinct
                 and 3 * sum(weight of signers) > 2 * sum(weight of all members)
The signed payload is  id(ton.blockId) || root_hash || file_hash  and a signer is named by
sha256(id(pub.ed25519) || key); both constructor ids are computed by reftl from the bundled schema text
(ton_api.tl), not taken from the library.

Histories (sub-checks history-*): a case is a PROGRAM of calls, every one judged by the oracle above on the arguments of THAT call.
  * top-level calls one after the other in one process: validator sets of up to 64 (thorough 128) members that are related to an
    earlier one - same keys with one weight moved by a multiple of 2**61-1 (equal hash()), by 2**32 / 2**63, by 1, to 0 / 2**64-1,
    the same weights dealt differently, members reordered, one member replaced / removed / added - with the same signers presented
    again; the descriptors are fresh objects, a tuple, a generator, or the caller's ONE list updated in place between the calls;
  * signatures handed over as list / tuple / generator / the caller's own sequence class (__iter__, or __getitem__ only) / list of
    dict-subclass entries, where the lazy forms run caller code that makes a NESTED check (equal set as fresh objects, the very same
    list object, a related set, other keys; same or another block; no / all / overlapping / few signers, or failing midway) when the
    library asks for entry k; afterwards the enclosing call goes on with repeated signers (must be rejected), with further signers up
    to a supermajority (must be accepted) or just below it (must be rejected). Also nested while a validator generator is read.

Deliberately NOT asserted
  * which exception type a rejection raises, or its message;
  * behaviour for malformed arguments (signatures that are not 64 bytes, node ids that are not hex, keys that are not
    32 bytes, two members sharing one key, negative weights);
  * that workchain/shard/seqno of `blk` take part in the signed payload (ton.blockId carries only the two hashes).

Development aid: VERIF_IGNORE_SIG='sig1,sig2' makes this module skip those signatures (default: none).
"""
import hashlib
import os

from hypothesis import strategies as st

from harness.core import Sub, Fail, call, exc_sig, REPO, HarnessError
from harness.ref import reftl, refkeys

SCH = reftl.bundled(REPO)
reftl.self_check(SCH)
MAGIC_BLOCKID = SCH.ctor_id('ton.blockId').to_bytes(4, 'little')       # ton_api.tl: root_cell_hash:int256 file_hash:int256
MAGIC_PUB_ED25519 = SCH.ctor_id('pub.ed25519').to_bytes(4, 'little')
_IGNORE = {s.strip() for s in os.environ.get('VERIF_IGNORE_SIG', '').split(',') if s.strip()}

RULE = ('case = (validators: list of (32-byte Ed25519 seed, weight); block id; signature list: entries of kind valid-by-'
        'member-i / bit-flipped / genuine-over-a-prefixed-payload-with-the-prefix-appended / valid-for-another-block (root or file hash changed, or swapped) / valid-by-non-member / '
        'member-id-with-foreign-signature, in generated order, members may repeat). 0..12 validators; weights from '
        '{0,1,2,3, random up to 2^62} or engineered so that 3*signed - 2*total is in {-3..3} (exact 2/3 and both sides). '
        'enum-small: n=0..5 validators x 3 weight patterns x every subset of signers x 11 list shapes. '
        'non-trivial = list holds an adversarial element or a repeated signer, or |3*signed - 2*total| <= 3; '
        'distinct = distinct case. '
        'history-* sub-checks: case = program of calls (plain data), each call = (validator set, entries, block, container form of '
        'the signatures: list/tuple/generator/own sequence class/lazy dict-subclass entries, form of the validators: list/tuple/'
        'generator/the previous call\'s list edited in place, nested calls fired when the library reads entry k). '
        'history-related-sets: sizes 4,16,24,32,40,64 x weights ones/ramp x 18 relations of set B to set A (one weight +k*(2^61-1), '
        '+2^32, +2^63, +1, doubled, 0, 2^64-1; weights swapped/rotated/all doubled; order reversed/rotated; member replaced/dropped/'
        'added) at the first/last member x 3 signer choices x orders AB, BA, ABA. history-nested: sizes 3,12,24,32,40,64 x 5 lazy '
        'forms x 6 relations of the nested set x 5 nested signer lists x 5 outer patterns (duplicates after the nested call, '
        'supermajority completed after it, one short of it, nested first, nested at exhaustion). history-random: 1..6 top-level '
        'calls over sets of 1..65 members derived by those relations, random signer modes, optional adversarial entry, up to two '
        'levels of nested calls. non-trivial (history) = at least two calls in the program')
ASSUMPTIONS = ['PyNaCl Ed25519 signing (deterministic) from generated seeds', 'hashlib.sha256',
               'reftl constructor ids of ton.blockId and pub.ed25519 (anchored: c50b6e70, 4813b4c6)']

PRIORITY = ['invalid-signature', 'signature-for-other-block', 'unknown-signer', 'empty-validator-set', 'duplicate-signer',
            'exactly-two-thirds', 'insufficient-weight']


def _key_raw(seed_hex):
    from nacl.signing import SigningKey
    sk = SigningKey(bytes.fromhex(seed_hex))
    return sk, bytes(sk.verify_key)


def node_id(pub):
    return hashlib.sha256(MAGIC_PUB_ED25519 + pub).digest()


def spell(hx, how):
    """other spellings of the same id that bytes.fromhex reads alike: 0 lower (what the TL parser returns), 1 upper, 2 mixed
    case, 3 with blanks between bytes"""
    if how == 1:
        return hx.upper()
    if how == 2:
        return ''.join(c.upper() if i % 3 == 0 else c for i, c in enumerate(hx))
    if how == 3:
        return ' '.join(hx[i:i + 2] for i in range(0, len(hx), 2))
    return hx


def analyse(case):
    """returns (expected_accept, reasons, signed_weight, total_weight) purely from the case"""
    vals = case['validators']
    total = sum(v['weight'] for v in vals)
    reasons = set()
    if not vals:
        reasons.add('empty-validator-set')
    signers = []
    for e in case['sigs']:
        k = e['k']
        if k in ('valid', 'valid-alt'):
            signers.append(e['i'])
        elif k in ('bitflip', 'impersonate', 'prefixed', 'borrowed'):
            reasons.add('invalid-signature')
        elif k == 'othermagic':
            reasons.add('signature-for-other-block')
        elif k == 'adnl':
            reasons.add('unknown-signer')
        elif k == 'otherblk':
            reasons.add('signature-for-other-block')
        elif k == 'nonmember':
            reasons.add('unknown-signer')
        else:
            raise ValueError(k)
    if len(set(signers)) != len(signers):
        reasons.add('duplicate-signer')
    signed = sum(vals[i]['weight'] for i in set(signers))
    if 3 * signed == 2 * total:
        reasons.add('exactly-two-thirds')
    elif 3 * signed < 2 * total:
        reasons.add('insufficient-weight')
    return (not reasons), reasons, signed, total


def materialise(case, keymemo=None):
    """(nodes, sigs, blk) as library objects for one call, built from the plain-data case. `keymemo` (seed hex -> key pair) only
    lives as long as one check() invocation."""
    from pytoniq_core.tlb.config import ValidatorDescr, SigPubKey
    from pytoniq_core.tl.block import BlockIdExt
    if keymemo is None:
        keymemo = {}

    def _key(seed_hex):
        if seed_hex not in keymemo:
            keymemo[seed_hex] = _key_raw(seed_hex)
        return keymemo[seed_hex]
    b = case['blk']
    root, file = bytes.fromhex(b['root']), bytes.fromhex(b['file'])
    blk = BlockIdExt(b['wc'], b['shard'], b['seqno'], root, file)
    keys = [_key(v['seed']) for v in case['validators']]
    if len({pk for _, pk in keys}) != len(keys):
        raise ValueError('case outside the domain: two members share a key')
    with_addr = any(e['k'] == 'adnl' for e in case['sigs'])        # entries that name a validator by its ADNL address need one
    nodes = [ValidatorDescr('validator_addr' if v.get('addr') or with_addr else 'validator', SigPubKey(pk), v['weight'],
                            hashlib.sha256(pk).digest() if v.get('addr') or with_addr else None)
             for v, (_, pk) in zip(case['validators'], keys)]
    if b['seqno'] % 4 == 1 and nodes:
        # descriptor objects that were built with a placeholder and got their key / weight assigned afterwards (public attributes):
        # what counts is the validator set as it is when the check is called
        placeholder = bytes(32)
        nodes = [ValidatorDescr(n_.type_, SigPubKey(placeholder), 0, n_.adnl_addr) for n_ in nodes]
        for n_, v, (_, pk) in zip(nodes, case['validators'], keys):
            if b['seqno'] % 8 == 1:
                n_.public_key = SigPubKey(pk)
            else:
                n_.public_key.pubkey = pk
            n_.weight = v['weight']
    payload = MAGIC_BLOCKID + root + file
    sigs = []
    for e in case['sigs']:
        k = e['k']
        if k == 'valid':
            sk, pk = keys[e['i']]
            s = sk.sign(payload).signature
        elif k == 'valid-alt':                               # another valid signature by the same member (other nonce)
            _, pk = keys[e['i']]
            s = refkeys.ed_sign_alt(bytes.fromhex(case['validators'][e['i']]['seed']), payload, bytes([e['salt']]))
            if not refkeys.ed_verify(pk, payload, s):
                raise HarnessError('alternate-nonce signature does not verify')
        elif k == 'bitflip':
            sk, pk = keys[e['i']]
            s = bytearray(sk.sign(payload).signature)
            s[e['bit'] // 8] ^= 1 << (e['bit'] % 8)
            s = bytes(s)
        elif k == 'otherblk':
            sk, pk = keys[e['i']]
            r2, f2 = bytearray(root), bytearray(file)
            if e['how'] == 'root':
                r2[e['bit'] // 8] ^= 1 << (e['bit'] % 8)
            elif e['how'] == 'file':
                f2[e['bit'] // 8] ^= 1 << (e['bit'] % 8)
            else:                                            # swapped hashes (made different if they coincide)
                r2, f2 = f2, r2
                if r2 == f2:
                    r2[0] ^= 1
            s = sk.sign(MAGIC_BLOCKID + bytes(r2) + bytes(f2)).signature
        elif k == 'nonmember':
            sk, pk = _key(e['seed'])
            if any(pk == q for _, q in keys):
                raise ValueError('case outside the domain: non-member key is a member')
            s = sk.sign(payload).signature
        elif k == 'prefixed':                                # a member's genuine signature over (extra || payload), handed over as
            sk, pk = keys[e['i']]                            # sig64 || extra: not a signature over this block's identifier
            extra_b = hashlib.sha256(b'c12/extra/%d' % e['n']).digest()[:1 + e['n'] % 32]
            s = sk.sign(extra_b + payload).signature + extra_b
        elif k == 'othermagic':                              # a member's genuine signature over the same two hashes under ANOTHER
            sk, pk = keys[e['i']]                            # constructor id (ton.blockIdApprove, a zero id, ...): not this block id
            mg = [SCH.ctor_id('ton.blockIdApprove').to_bytes(4, 'little'), bytes(4), MAGIC_BLOCKID[::-1], MAGIC_PUB_ED25519][e['m'] % 4]
            s = sk.sign(mg + root + file).signature
        elif k == 'adnl':                                    # a genuine signature of member i listed under i's ADNL address (the other
            sk, pk = keys[e['i']]                            # 256-bit name a validator_addr entry carries) instead of its short id
            s = sk.sign(payload).signature
            sigs.append({'node_id_short': spell(hashlib.sha256(pk).digest().hex(), e.get('sp', 0)), 'signature': s})
            continue
        elif k == 'borrowed':                                # member i's id over ANOTHER member's genuine signature bytes (that
            _, pk = keys[e['i']]                             # member's own entry may stand earlier in the list, or in an earlier call)
            s = keys[e['from']][0].sign(payload).signature
        elif k == 'impersonate':                             # member's id, signature made with a foreign key
            sk, _ = _key(e['seed'])
            _, pk = keys[e['i']]
            s = sk.sign(payload).signature
        else:
            raise ValueError(k)
        sigs.append({'node_id_short': spell(node_id(pk).hex(), e.get('sp', 0)), 'signature': s})
    return nodes, sigs, blk


def check(case):
    from pytoniq_core.proof.check_proof import check_block_signatures
    from pytoniq_core.tl.block import BlockIdExt
    nodes, sigs, blk = materialise(case)
    b = case['blk']
    root, file = bytes.fromhex(b['root']), bytes.fromhex(b['file'])
    expect, reasons, signed, total = analyse(case)
    ok, res = call(check_block_signatures, nodes, sigs, blk)
    f = None
    summ = f'{len(nodes)} validators total weight {total}, {len(sigs)} entries {[e["k"] for e in case["sigs"]][:14]}, ' \
           f'distinct valid signed weight {signed} (3*signed-2*total = {3 * signed - 2 * total})'
    if ok and not expect:
        why = next(r for r in PRIORITY if r in reasons)
        f = Fail(f'accepted/{why}', f'accepted although {sorted(reasons)}: {summ}')
    elif not ok and expect and any(e.get('sp', 0) for e in case['sigs']):
        f = None          # ids in a spelling other than the TL parser's lower-case hex: accepting them is not required
    elif not ok and expect:
        sig = 'rejected/valid-supermajority'
        if type(res).__name__ != 'ProofError':
            sig += '/' + exc_sig(res)
        f = Fail(sig, f'{res!r}: {summ}')
    if f is None and ok and expect:
        # no verdict carried over: the very same entries, just accepted for this block, presented for a block id that differs
        # only in the file hash / only in the root hash are signatures over another block
        for which in ('file', 'root'):
            r2, f2 = bytearray(root), bytearray(file)
            (f2 if which == 'file' else r2)[31] ^= 1
            blk2 = BlockIdExt(b['wc'], b['shard'], b['seqno'], bytes(r2), bytes(f2))
            ok2, _ = call(check_block_signatures, nodes, sigs, blk2)
            if ok2:
                f = Fail(f'accepted/signature-for-other-block/after-earlier-acceptance/{which}-hash-differs',
                         f'a set just accepted for (root, file) was accepted again for a block with another {which} hash: {summ}')
                break
        if f is None:
            ok3, res3 = call(check_block_signatures, nodes, sigs, blk)
            if not ok3:
                f = Fail('rejected/valid-supermajority/second-call', f'{res3!r}: accepted once, rejected when presented again: {summ}')
    if f is None and nodes:
        # the same set with its weights held in other exact number types (an int subclass; fractions - all weights divided by 7, or
        # multiplied by 2/3): the condition "more than two thirds of the total" does not depend on the unit, so the verdict is
        # the same. (No floats / Decimals: their arithmetic is not exact.)
        from fractions import Fraction

        class _W(int):
            pass
        saved = [n_.weight for n_ in nodes]
        for wname, conv in (('int-subclass', _W), ('fractions/7', lambda w: Fraction(w, 7)), ('fractions*2/3', lambda w: Fraction(2 * w, 3))):
            for n_, w in zip(nodes, saved):
                n_.weight = conv(w)
            okw, resw = call(check_block_signatures, nodes, sigs, blk)
            if okw != ok:
                f = Fail(f'{"accepted" if okw else "rejected"}/verdict-depends-on-the-number-type-of-the-weights/{wname}',
                         f'{"accepted" if okw else repr(resw)} with weights as {wname}, the opposite with plain ints: {summ}')
                break
        for n_, w in zip(nodes, saved):
            n_.weight = w
    if f is not None and f.signature in _IGNORE:
        return None
    return f


def check_hammer(case):
    """several signature sets (and single signatures) prepared one after the other, then verified by threads at the same time:
    the verdict on each is the one it gets alone"""
    from harness.core import hammer
    from pytoniq_core.proof.check_proof import check_block_signatures
    from pytoniq_core.crypto.signature import verify_sign
    calls = []
    for ci, c in enumerate(case['cases']):
        nodes, sigs, blk = materialise(c)
        expect = analyse(c)[0]

        def verdict(nodes=nodes, sigs=sigs, blk=blk):
            check_block_signatures(nodes, sigs, blk)
            return 'accepted'
        if any(e.get('sp', 0) for e in c['sigs']):
            continue
        calls.append((f'check_block_signatures/{"valid-supermajority" if expect else "must-be-rejected"}', verdict))
        payload = MAGIC_BLOCKID + blk.root_hash + blk.file_hash
        by_id = {node_id(n_.public_key.pubkey).hex(): n_.public_key.pubkey for n_ in nodes}
        for e in sigs[:3]:
            pk = by_id.get(e['node_id_short'])
            if pk is not None:
                calls.append(('verify_sign', lambda pk=pk, s=e['signature']: bool(verify_sign(pk, payload, s))))
    if len(calls) < 2:
        return None
    return hammer(calls, threads=4, rounds=12)


# --------------------------------------------------------------------------------------------------
# histories: several checks in one process, related validator sets, lazily produced signature lists, nested checks

LAZY_FORMS = ('gen', 'iter', 'getitem', 'lazy-entry')


class _IterSeq:
    """a caller's own re-iterable sequence type (only __iter__ / __len__)"""

    def __init__(self, items, fire):
        self.items, self.fire = items, fire

    def __len__(self):
        return len(self.items)

    def __iter__(self):
        for k, e in enumerate(self.items):
            self.fire(k)
            yield e
        self.fire(len(self.items))


class _GetitemSeq:
    """a caller's own sequence type that is iterated through __getitem__ / IndexError"""

    def __init__(self, items, fire):
        self.items, self.fire = items, fire

    def __len__(self):
        return len(self.items)

    def __getitem__(self, k):
        if isinstance(k, slice):
            return self.items[k]
        if k < 0:
            k += len(self.items)
        self.fire(min(k, len(self.items)))
        return self.items[k]


class _Entry(dict):
    """an entry whose fields are produced on first access"""

    def __init__(self, d, hook):
        super().__init__(d)
        self._hook = hook

    def __getitem__(self, key):
        h, self._hook = self._hook, None
        if h is not None:
            h()
        return dict.__getitem__(self, key)

    def get(self, key, default=None):
        h, self._hook = self._hook, None
        if h is not None:
            h()
        return dict.get(self, key, default)


def _gen(items, fire):
    for k, e in enumerate(items):
        fire(k)
        yield e
    fire(len(items))


def _edit_in_place(prev, new):
    """turn the list object `prev` (ValidatorDescr objects of an earlier, finished call) into the set `new` by assigning the public
    attributes / resizing the list: the caller keeps one list of descriptors and updates it when the set changes"""
    del prev[len(new):]
    for i, nn in enumerate(new):
        if i >= len(prev):
            prev.append(nn)
            continue
        o = prev[i]
        if o.public_key.pubkey != nn.public_key.pubkey:
            if i % 3 == 1:
                o.public_key = nn.public_key
            elif i % 3 == 2:
                o.public_key.pubkey = nn.public_key.pubkey
            else:
                # the old key is dropped first and the new one is a bytes object created only now: it usually gets the memory (and
                # so the id()) the old key object had - whatever was remembered about "that object" is about another key now
                o.public_key.pubkey = None
                o.public_key.pubkey = bytes(bytearray(nn.public_key.pubkey))
        if o.weight != nn.weight:
            o.weight = nn.weight
        o.type_, o.adnl_addr = nn.type_, nn.adnl_addr
    return prev


def _walk(step, path=()):
    yield path, step
    for j, inn in enumerate(step.get('inner', ())):
        yield from _walk(inn['step'], path + (j,))


def _run_step(step, ctx, path, outer=None):
    from pytoniq_core.proof.check_proof import check_block_signatures
    nodes, sigs, blk = ctx['mat'][path]
    nform = step.get('nform', 'list')
    if nform == 'same':
        if outer is not None:
            if outer[1] == step['validators']:
                nodes = outer[0]                         # the very list object the enclosing call was given
        elif ctx.get('objs') is not None:
            nodes = _edit_in_place(ctx['objs'], nodes)   # the list object of the previous (finished) call, updated in place
    if outer is None:
        ctx['objs'] = nodes
    inner = step.get('inner', [])
    fired = set()

    def fire(where, k):
        for j, inn in enumerate(inner):
            if j not in fired and inn.get('in', 'sigs') == where and inn['at'] == k:
                fired.add(j)
                try:
                    _run_step(inn['step'], ctx, path + (j,), outer=(nodes, step['validators']))
                except Exception as e:          # harness trouble must not look like a rejection by the library
                    ctx.setdefault('harness_exc', e)

    sform = step.get('sform', 'list')
    if sform == 'list':
        sarg = sigs
    elif sform == 'tuple':
        sarg = tuple(sigs)
    elif sform == 'gen':
        sarg = _gen(sigs, lambda k: fire('sigs', k))
    elif sform == 'iter':
        sarg = _IterSeq(sigs, lambda k: fire('sigs', k))
    elif sform == 'getitem':
        sarg = _GetitemSeq(sigs, lambda k: fire('sigs', k))
    elif sform == 'lazy-entry':
        sarg = [_Entry(e, (lambda k=k: fire('sigs', k))) for k, e in enumerate(sigs)]
    else:
        raise ValueError(sform)
    if nform == 'tuple':
        narg = tuple(nodes)
    elif nform == 'gen':
        narg = _gen(nodes, lambda k: fire('nodes', k))
    else:
        narg = nodes
    ok, res = call(check_block_signatures, narg, sarg, blk)
    ctx['log'].append((path, step, ok, res, bool(fired)))


def check_history(case):
    """every call of the program - top-level ones one after the other, nested ones made by the caller's own code while the library
    consumes a lazily produced argument - is judged by the same oracle as a single call: the verdict is a function of the validator
    set, the entries and the block id handed to THAT call, whatever was checked before or is being checked around it"""
    keymemo = {}
    ctx = {'log': [], 'mat': {}, 'objs': None}
    for t, step in enumerate(case['steps']):
        for path, st_ in _walk(step, (t,)):
            ctx['mat'][path] = materialise(st_, keymemo)
    for t, step in enumerate(case['steps']):
        _run_step(step, ctx, (t,))
        if 'harness_exc' in ctx:
            raise HarnessError(f'nested step failed in harness code: {ctx["harness_exc"]!r}')
    tops = [p for p, *_ in ctx['log'] if len(p) == 1]
    if tops != [(t,) for t in range(len(case['steps']))]:
        raise HarnessError('top-level calls were not logged once each')
    for path, step, ok, res, fired in ctx['log']:
        expect, reasons, signed, total = analyse(step)
        if ok == expect:
            continue
        tag = ('nested-call' if len(path) > 1 else 'call-with-nested-check-inside' if fired else
               'later-call' if path[0] > 0 else 'first-call')
        summ = (f'call {".".join(map(str, path))} of a program of {len(case["steps"])} top-level calls '
                f'[{step.get("note", "")}; signatures as {step.get("sform", "list")}, validators as {step.get("nform", "list")}]: '
                f'{len(step["validators"])} validators total weight {total}, {len(step["sigs"])} entries, '
                f'distinct valid signed weight {signed} (3*signed-2*total = {3 * signed - 2 * total})')
        if ok:
            why = next(r for r in PRIORITY if r in reasons)
            f = Fail(f'history/accepted/{why}/{tag}', f'accepted although {sorted(reasons)}: {summ}')
        else:
            if any(e.get('sp', 0) for e in step['sigs']):
                continue
            sig = f'history/rejected/valid-supermajority/{tag}'
            if type(res).__name__ != 'ProofError':
                sig += '/' + exc_sig(res)
            f = Fail(sig, f'{res!r}: {summ}')
        if f.signature in _IGNORE:
            continue
        return f
    return None


# --------------------------------------------------------------------------------------------------
# generation

def _seed(tag):
    return hashlib.sha256(tag.encode()).hexdigest()


def _blk(tag):
    h = hashlib.sha256(('blk' + tag).encode()).digest()
    return {'wc': -1, 'shard': -2 ** 63, 'seqno': int.from_bytes(h[:3], 'big'),
            'root': hashlib.sha256(h + b'r').hexdigest(), 'file': hashlib.sha256(h + b'f').hexdigest()}


def enum_small(tier):
    nmax = 5 if tier == 'quick' else 7
    for n in range(0, nmax + 1):
        for wp in ('ones', 'ramp', 'with-zero'):
            w = [1] * n if wp == 'ones' else [i + 1 for i in range(n)] if wp == 'ramp' else [i % 3 for i in range(n)]
            vals = [{'seed': _seed(f'v{n}/{i}'), 'weight': w[i]} for i in range(n)]
            for mask in range(1 << n):
                members = [i for i in range(n) if (mask >> i) & 1]
                base = [{'k': 'valid', 'i': i} for i in members]
                shapes = [('plain', base), ('reversed', base[::-1])]
                if members:
                    m = members[0]
                    shapes.append(('dup', base + [{'k': 'valid', 'i': m}]))
                    shapes.append(('dup-x3', [{'k': 'valid', 'i': m}] * 3 + base[1:]))
                    shapes.append(('dup-alt', base + [{'k': 'valid-alt', 'i': m, 'salt': mask % 256}]))
                    shapes.append(('dup-respelled', base + [{'k': 'valid', 'i': m, 'sp': 1 + mask % 3}]))
                    shapes.append(('dup-alt-respelled', [{'k': 'valid-alt', 'i': m, 'salt': 3, 'sp': 1 + (mask + 1) % 3}] + base))
                    shapes.append(('alt-only', [{'k': 'valid-alt', 'i': i, 'salt': i} for i in members]))
                    shapes.append(('bitflip', base[1:] + [{'k': 'bitflip', 'i': m, 'bit': (mask * 37) % 512}]))
                    shapes.append(('otherblk', [{'k': 'otherblk', 'i': m, 'how': ('root', 'file', 'swap')[mask % 3],
                                                 'bit': (mask * 11) % 256}] + base[1:]))
                    shapes.append(('impersonate', base[1:] + [{'k': 'impersonate', 'i': m, 'seed': _seed(f'x{n}/{mask}')}]))
                    shapes.append(('prefixed', base[1:] + [{'k': 'prefixed', 'i': m, 'n': mask}]))
                    if len(members) >= 1 and n >= 2:
                        other = next(i for i in range(n) if i != m)
                        # the genuine entry of m first, then m's signature bytes again under another member's id (and the reverse order)
                        shapes.append(('borrowed-after-genuine', base + [{'k': 'borrowed', 'i': other, 'from': m}] if other not in members
                                       else [e for e in base if e['i'] != other] + [{'k': 'borrowed', 'i': other, 'from': m}]))
                        shapes.append(('borrowed-before-genuine', [{'k': 'borrowed', 'i': other, 'from': m}] + [e for e in base if e['i'] != other]))
                    shapes.append(('prefixed-all', [{'k': 'prefixed', 'i': i, 'n': mask + i} for i in members]))
                    shapes.append(('othermagic', base[1:] + [{'k': 'othermagic', 'i': m, 'm': mask}]))
                    shapes.append(('othermagic-all', [{'k': 'othermagic', 'i': i, 'm': 0} for i in members]))
                    shapes.append(('adnl-instead', base[1:] + [{'k': 'adnl', 'i': m}]))
                    shapes.append(('adnl-in-addition', base + [{'k': 'adnl', 'i': m}]))
                shapes.append(('nonmember', base + [{'k': 'nonmember', 'seed': _seed(f'nm{n}/{mask}')}]))
                for sname, sl in shapes:
                    if sname == 'reversed' and len(base) < 2:
                        continue
                    yield {'validators': vals, 'blk': _blk(f'{n}/{wp}/{mask}'), 'sigs': sl}


@st.composite
def _case(draw):
    n = draw(st.sampled_from([0, 1, 1, 2, 2, 3, 3, 4, 5, 6, 7, 8, 9, 10, 11, 12]))
    tag = draw(st.binary(min_size=4, max_size=4)).hex()
    seeds = [_seed(f'{tag}/{i}') for i in range(n)]
    mode = draw(st.sampled_from(['free', 'free', 'threshold', 'threshold', 'threshold', 'all-sign', 'repeat-one']))
    wsmall = st.sampled_from([0, 1, 1, 2, 3])
    wany = st.one_of(wsmall, wsmall, st.integers(0, 1 << 62), st.sampled_from([(1 << 62), (1 << 32) - 1, 1 << 32]))
    if n == 0:
        signers = []
        weights = []
    elif mode == 'threshold':
        k = draw(st.integers(1, n))
        order = draw(st.permutations(range(n)))
        signers, others = list(order[:k]), list(order[k:])
        wo = {i: draw(wany) for i in others}
        o = sum(wo.values())
        d = draw(st.sampled_from([-3, -2, -1, 0, 0, 1, 1, 2, 3]))       # 3*s - 2*(s+o) = s - 2*o =: d
        s = max(0, 2 * o + d)
        # split s over the k signers
        cuts = sorted(draw(st.integers(0, s)) for _ in range(k - 1))
        parts = [b - a for a, b in zip([0] + cuts, cuts + [s])]
        ws = dict(zip(signers, parts))
        weights = [ws[i] if i in ws else wo[i] for i in range(n)]
    else:
        weights = [draw(wany) for _ in range(n)]
        if mode == 'all-sign':
            signers = list(draw(st.permutations(range(n))))
        elif mode == 'repeat-one':
            signers = [draw(st.integers(0, n - 1))]
        else:
            signers = [i for i in draw(st.permutations(range(n))) if draw(st.booleans())]
    sigs = [{'k': 'valid', 'i': i} for i in signers]
    # adversarial elements
    adv = draw(st.sampled_from(['none', 'none', 'none', 'dup', 'dup-many', 'bitflip', 'otherblk', 'nonmember',
                                'impersonate', 'prefixed', 'borrowed', 'othermagic', 'adnl', 'mix']))
    if mode == 'repeat-one' and adv == 'none':
        adv = 'dup-many'
    extra = []
    kinds = {'dup': ['dup'], 'dup-many': ['dup'] * draw(st.integers(2, 8)), 'mix': draw(st.lists(
        st.sampled_from(['dup', 'bitflip', 'otherblk', 'nonmember', 'impersonate', 'prefixed', 'borrowed', 'othermagic', 'adnl']), min_size=2, max_size=4))}.get(adv, [adv])
    for j, kd in enumerate(kinds):
        if kd == 'none':
            continue
        if kd == 'nonmember' or n == 0:
            extra.append({'k': 'nonmember', 'seed': _seed(f'{tag}/nm{j}')})
            continue
        if kd == 'dup':
            pool = signers or list(range(n))
            extra.append({'k': 'valid', 'i': draw(st.sampled_from(pool))})
            if not signers:
                extra.append(dict(extra[-1]))
            if draw(st.booleans()):                          # the repeat is a *different* valid signature
                extra[-1] = {'k': 'valid-alt', 'i': extra[-1]['i'], 'salt': draw(st.integers(0, 255))}
            if draw(st.integers(0, 2)) == 0:                 # ... whose signer id is spelled differently
                extra[-1]['sp'] = draw(st.integers(1, 3))
        elif kd == 'bitflip':
            extra.append({'k': 'bitflip', 'i': draw(st.integers(0, n - 1)), 'bit': draw(st.integers(0, 511))})
        elif kd == 'otherblk':
            extra.append({'k': 'otherblk', 'i': draw(st.integers(0, n - 1)),
                          'how': draw(st.sampled_from(['root', 'file', 'swap'])), 'bit': draw(st.integers(0, 255))})
        elif kd == 'impersonate':
            extra.append({'k': 'impersonate', 'i': draw(st.integers(0, n - 1)), 'seed': _seed(f'{tag}/im{j}')})
        elif kd == 'prefixed':
            extra.append({'k': 'prefixed', 'i': draw(st.integers(0, n - 1)), 'n': draw(st.integers(0, 255))})
        elif kd == 'othermagic':
            extra.append({'k': 'othermagic', 'i': draw(st.integers(0, n - 1)), 'm': draw(st.integers(0, 3))})
        elif kd == 'adnl':
            extra.append({'k': 'adnl', 'i': draw(st.integers(0, n - 1))})
        elif kd == 'borrowed':
            if n < 2:
                extra.append({'k': 'nonmember', 'seed': _seed(f'{tag}/nm{j}')})
            else:
                src = draw(st.sampled_from(signers)) if signers else draw(st.integers(0, n - 1))
                dst = draw(st.sampled_from([i for i in range(n) if i != src]))
                sigs[:] = [e for e in sigs if e.get('i') != dst]          # dst has no genuine entry of its own: its only entry is the borrowed one
                extra.append({'k': 'borrowed', 'i': dst, 'from': src})
    sigs = list(draw(st.permutations(sigs + extra))) if extra else sigs
    h = st.one_of(st.binary(min_size=32, max_size=32), st.sampled_from([b'\x00' * 32, b'\xff' * 32]))
    blk = {'wc': draw(st.sampled_from([-1, 0, 1, -2 ** 31, 2 ** 31 - 1])),
           'shard': draw(st.sampled_from([-2 ** 63, 0, 1 << 62, -1])), 'seqno': draw(st.integers(0, 2 ** 31 - 1)),
           'root': draw(h).hex(), 'file': draw(h).hex()}
    vals = [{'seed': seeds[i], 'weight': weights[i]} for i in range(n)]
    if n and draw(st.integers(0, 3)) == 0:
        for v in vals:
            v['addr'] = True
    return {'validators': vals, 'blk': blk, 'sigs': sigs}


def strat(tier):
    return _case()


# ---- histories -------------------------------------------------------------------------------------------------------------
# A validator set is handled as a list of (key number, weight); key number k of a program tagged `tag` is the seed _seed(tag/k).

M61 = (1 << 61) - 1          # CPython hashes ints modulo 2**61-1: w and w + k*M61 are different weights with equal hash()
U64 = (1 << 64) - 1          # weight:uint64
MUTATIONS = ('same', 'collide61x1', 'collide61x4', 'collide61x7', 'plus2^32', 'plus2^63', 'plus1', 'double-one', 'to-zero',
             'to-max', 'swap-weights', 'rotate-weights', 'double-all', 'reverse-order', 'rotate-order', 'replace-key',
             'drop-last', 'drop-first', 'add-one')
SIGNER_MODES = ('light-3/4', 'heavy+third', 'count-2/3', 'count-2/3+1', 'all')
HISTORY_SIZES = (4, 16, 24, 32, 40, 64)


def mutate(ps, kind, p):
    """a validator set related to `ps`: same keys with one weight moved (by a multiple of 2**61-1, of 2**32, to an extreme ...),
    the same weights dealt differently, the same members in another order, one member replaced / removed / added"""
    ps = [list(x) for x in ps]
    n = len(ps)
    if n == 0 or kind == 'same':
        return [tuple(x) for x in ps]
    p %= n
    w = ps[p][1]
    if kind.startswith('collide61x'):
        k = int(kind[len('collide61x'):])
        ps[p][1] = w + k * M61 if w + k * M61 <= U64 else w - k * M61 if w >= k * M61 else w % M61
    elif kind == 'plus2^32':
        ps[p][1] = (w + (1 << 32)) if w + (1 << 32) <= U64 else w - (1 << 32)
    elif kind == 'plus2^63':
        ps[p][1] = (w + (1 << 63)) if w + (1 << 63) <= U64 else w - (1 << 63)
    elif kind == 'plus1':
        ps[p][1] = w + 1 if w < U64 else w - 1
    elif kind == 'double-one':
        ps[p][1] = min(U64, 2 * w + 2 * n)
    elif kind == 'to-zero':
        ps[p][1] = 0 if w else 3 * n
    elif kind == 'to-max':
        ps[p][1] = U64 if w != U64 else 1
    elif kind == 'swap-weights':
        q = (p + 1) % n
        ps[p][1], ps[q][1] = ps[q][1], ps[p][1]
    elif kind == 'rotate-weights':
        ws = [x[1] for x in ps]
        for i in range(n):
            ps[i][1] = ws[(i + 1) % n]
    elif kind == 'double-all':
        for x in ps:
            x[1] = min(U64, 2 * x[1])
    elif kind == 'reverse-order':
        ps.reverse()
    elif kind == 'rotate-order':
        ps = ps[1:] + ps[:1]
    elif kind == 'replace-key':
        ps[p][0] = 1000 + max(x[0] for x in ps)
    elif kind == 'drop-last':
        ps.pop()
    elif kind == 'drop-first':
        ps.pop(0)
    elif kind == 'add-one':
        ps.insert(p, [2000 + max(x[0] for x in ps), max(1, w)])
    else:
        raise ValueError(kind)
    return [tuple(x) for x in ps]


def pick_signers(ps, mode, p):
    """key numbers of the signers, chosen by position in `ps`; p = the member the neighbouring sets differ in"""
    n = len(ps)
    if n == 0:
        return []
    p %= n
    rest = [i for i in range(n) if i != p]
    if mode == 'light-3/4':
        pos = rest[:(3 * n + 3) // 4]
    elif mode == 'heavy+third':
        pos = [p] + rest[:n // 3]
    elif mode == 'count-2/3':
        pos = list(range(n))[:(2 * n) // 3]
    elif mode == 'count-2/3+1':
        pos = list(range(n))[:(2 * n) // 3 + 1]
    elif mode == 'all':
        pos = list(range(n))
    else:
        raise ValueError(mode)
    return [ps[i][0] for i in pos]


def hstep(tag, ps, signer_keys, blk_tag, note='', **kw):
    """one call as plain data: the set `ps`, entries by the given key numbers in the given order (a key that is not in the set
    gives a non-member entry)"""
    where = {k: i for i, (k, _) in enumerate(ps)}
    sigs = [{'k': 'valid', 'i': where[k]} if k in where else {'k': 'nonmember', 'seed': _seed(f'{tag}/{k}')} for k in signer_keys]
    step = {'validators': [{'seed': _seed(f'{tag}/{k}'), 'weight': w} for k, w in ps], 'blk': _blk(f'{tag}/{blk_tag}'), 'sigs': sigs,
            'note': note}
    step.update(kw)
    return step


def _base_set(n, wp):
    return [(i, 1 if wp == 'ones' else i + 1 if wp == 'ramp' else (i * 7) % 5) for i in range(n)]


def enum_related(tier):
    """two or three calls one after the other: a set A and a related set B (every mutation kind, at the first / last member), the
    SAME signers presented each time, in the orders A B, B A, A B A; fresh objects or the caller's one list updated in place"""
    sizes = HISTORY_SIZES if tier == 'quick' else HISTORY_SIZES + (8, 12, 17, 25, 33, 48, 100, 128)
    c = 0
    for n in sizes:
        for wp in ('ones', 'ramp'):
            a = _base_set(n, wp)
            for kind in MUTATIONS[1:]:
                for p in (0, n - 1):
                    b = mutate(a, kind, p)
                    for mode in ('light-3/4', 'heavy+third', 'count-2/3+1'):
                        sg = pick_signers(a, mode, p)
                        for order in ('ab', 'ba', 'aba'):
                            c += 1
                            if order == 'aba' and tier == 'quick' and (c // 3) % 2:
                                continue
                            tag = f'rel/{n}/{wp}'
                            nform = ('list', 'same', 'tuple', 'list', 'gen')[c % 5]
                            steps = [hstep(tag, a if ch == 'a' else b, sg, f'{kind}/{p}/{mode}/{order}/{t}',
                                           note=('base set' if ch == 'a' else f'{kind}@{p}') + f', signers {mode}',
                                           nform=nform if t else 'list', sform=('list', 'tuple', 'gen')[(c // 3 + t) % 3])
                                     for t, ch in enumerate(order)]
                            yield {'steps': steps}


INNER_RELATIONS = ('equal-fresh', 'same-object', 'collide61x1', 'double-one', 'reverse-order', 'other-keys')
INNER_SIGNERS = ('none', 'all', 'upper-3/4', 'lower-third', 'fails-midway')
OUTER_PATTERNS = ('dup-after', 'valid-after', 'insufficient-after', 'inner-first', 'inner-at-end')


def _inner_step(tag, ps, rel, isg, blk_tag, same_blk_as=None):
    n = len(ps)
    if rel in ('equal-fresh', 'same-object'):
        q = list(ps)
    elif rel == 'other-keys':
        q = [(500 + k, w) for k, w in ps]
    else:
        q = mutate(ps, rel, n - 1)
    if isg == 'none':
        keys = []
    elif isg == 'all':
        keys = [k for k, _ in q]
    elif isg == 'upper-3/4':
        keys = [k for k, _ in q[n // 4:]]
    elif isg == 'lower-third':
        keys = [k for k, _ in q[:n // 3]]
    else:
        keys = [k for k, _ in q]
    st_ = hstep(tag, q, keys, blk_tag, note=f'nested: set {rel}, signers {isg}', nform='same' if rel == 'same-object' else 'list')
    if isg == 'fails-midway' and st_['sigs']:
        m = len(st_['sigs']) // 2
        st_['sigs'][m] = {'k': 'bitflip', 'i': st_['sigs'][m]['i'], 'bit': (7 * n + m) % 512}
    if same_blk_as is not None:
        st_['blk'] = dict(same_blk_as)
    return st_


def _outer_step(tag, ps, pattern, blk_tag, lazy, inner_step):
    """signers by position; the nested call happens when the library asks for the entry at `at`"""
    n = len(ps)
    h = max(1, n // 2)
    m = (2 * n) // 3 + 1                       # with equal weights: the smallest accepted number of signers
    ks = [k for k, _ in ps]
    if pattern == 'dup-after':
        keys, at = ks[:h] + ks[:max(1, h - n // 5)], h
    elif pattern == 'valid-after':
        keys, at = ks[:m], min(h, m - 1)
    elif pattern == 'insufficient-after':
        keys, at = ks[:m - 1], min(h, max(0, m - 2))
    elif pattern == 'inner-first':
        keys, at = ks[:m], 0
    elif pattern == 'inner-at-end':
        keys, at = ks[:m - 1], m - 1
    else:
        raise ValueError(pattern)
    if lazy == 'nodes-gen':
        return hstep(tag, ps, keys, blk_tag, note=f'{pattern}, nested check while the validators are read', sform='list', nform='gen',
                     inner=[{'in': 'nodes', 'at': min(at, n), 'step': inner_step}])
    if lazy == 'lazy-entry':
        at = min(at, max(0, len(keys) - 1))     # an entry hook only exists for entries
    return hstep(tag, ps, keys, blk_tag, note=f'{pattern}, nested check at entry {at}', sform=lazy,
                 inner=[{'in': 'sigs', 'at': at, 'step': inner_step}])


def enum_nested(tier):
    """one call whose signature list (or validator list) is produced lazily by caller code that checks another block meanwhile:
    sizes x lazy form x relation of the nested call's set x nested signers x outer pattern; then the same outer call again, plainly"""
    sizes = (3, 12, 24, 32, 40, 64) if tier == 'quick' else (1, 2, 3, 5, 12, 16, 24, 25, 30, 32, 36, 48, 64, 100, 128)
    c = 0
    for n in sizes:
        for lazy in LAZY_FORMS + ('nodes-gen',):
            for rel in INNER_RELATIONS:
                for isg in INNER_SIGNERS:
                    for pattern in OUTER_PATTERNS:
                        c += 1
                        if tier == 'quick' and n >= 40 and c % 3:
                            continue
                        wp = ('ones', 'ones', 'ramp')[(c // 7) % 3]
                        tag = f'nest/{n}/{wp}'
                        ps = _base_set(n, wp)
                        bt = f'{lazy}/{rel}/{isg}/{pattern}'
                        outer_blk = _blk(f'{tag}/{bt}/o')
                        inner = _inner_step(tag, ps, rel, isg, bt + '/i', same_blk_as=outer_blk if (c // 3) % 4 == 0 else None)
                        outer = _outer_step(tag, ps, pattern, bt + '/o', lazy, inner)
                        steps = [outer]
                        if (c // 3) % 2:
                            again = dict(outer, sform='list', nform='list', note='the outer call again, plain list')
                            again.pop('inner')
                            steps.append(again)
                        yield {'steps': steps}


@st.composite
def _history(draw):
    tag = 'h/' + draw(st.binary(min_size=3, max_size=3)).hex()
    n = draw(st.sampled_from([1, 2, 3, 5, 8, 12, 16, 17, 24, 25, 31, 32, 33, 40, 48, 64, 65]))
    wp = draw(st.sampled_from(['ones', 'ones', 'ramp', 'mod5', 'random']))
    wsmall = st.sampled_from([0, 1, 1, 2, 3])
    wany = st.one_of(wsmall, wsmall, st.integers(0, 1 << 62), st.sampled_from([M61, 1 << 61, (1 << 32) - 1, 1 << 32, 1 << 63, U64]))
    base = [(i, draw(wany)) for i in range(n)] if wp == 'random' else _base_set(n, wp)
    counter = [0]

    def one_call(ps, depth):
        counter[0] += 1
        cid = counter[0]
        p = draw(st.sampled_from([0, len(ps) - 1, len(ps) // 2])) if ps else 0
        mode = draw(st.sampled_from(SIGNER_MODES + ('subset',)))
        if mode == 'subset':
            keys = [k for k, _ in ps if draw(st.booleans())]
        else:
            keys = pick_signers(ps, mode, p)
        if draw(st.integers(0, 3)) == 0:
            keys = list(draw(st.permutations(keys)))
        step = hstep(tag, ps, keys, f'c{cid}', note=f'signers {mode}')
        adv = draw(st.sampled_from(['none', 'none', 'none', 'none', 'dup', 'dup-alt', 'bitflip', 'nonmember', 'otherblk']))
        if adv != 'none' and ps:
            i = draw(st.integers(0, len(ps) - 1))
            e = {'dup': {'k': 'valid', 'i': step['sigs'][0]['i'] if step['sigs'] and step['sigs'][0]['k'] == 'valid' else i},
                 'dup-alt': {'k': 'valid-alt', 'i': step['sigs'][-1]['i'] if step['sigs'] and step['sigs'][-1]['k'] == 'valid' else i,
                             'salt': cid % 256},
                 'bitflip': {'k': 'bitflip', 'i': i, 'bit': draw(st.integers(0, 511))},
                 'nonmember': {'k': 'nonmember', 'seed': _seed(f'{tag}/nm{cid}')},
                 'otherblk': {'k': 'otherblk', 'i': i, 'how': draw(st.sampled_from(['root', 'file', 'swap'])), 'bit': 5}}[adv]
            if adv in ('dup', 'dup-alt') and not any(x['k'] == 'valid' and x['i'] == e['i'] for x in step['sigs']):
                step['sigs'].append({'k': 'valid', 'i': e['i']})
            step['sigs'].insert(draw(st.integers(0, len(step['sigs']))), e)
            step['note'] += f', plus {adv}'
        step['sform'] = draw(st.sampled_from(('list', 'list', 'tuple') + LAZY_FORMS))
        step['nform'] = draw(st.sampled_from(['list', 'list', 'list', 'tuple', 'gen', 'same']))
        lazy_s, lazy_n = step['sform'] in LAZY_FORMS, step['nform'] == 'gen'
        if depth < 2 and (lazy_s or lazy_n) and draw(st.integers(0, 3 if depth else 1)) == 0 or (depth == 0 and lazy_s and draw(st.booleans())):
            inner = []
            for _ in range(draw(st.sampled_from([1, 1, 1, 2]))):
                where = draw(st.sampled_from([w for w, okw in (('sigs', lazy_s), ('nodes', lazy_n)) if okw]))
                top = len(step['sigs']) if where == 'sigs' else len(ps)
                if where == 'sigs' and step['sform'] == 'lazy-entry':
                    top = max(0, top - 1)
                at = draw(st.integers(0, top))
                rel = draw(st.sampled_from(('same', 'same', 'same') + MUTATIONS))
                q = mutate(ps, rel, draw(st.integers(0, max(0, len(ps) - 1))))
                sub = one_call(q, depth + 1)
                sub['note'] = f'nested: set {rel}; ' + sub['note']
                if draw(st.integers(0, 3)) == 0:
                    sub['blk'] = dict(step['blk'])
                inner.append({'in': where, 'at': at, 'step': sub})
            step['inner'] = inner
        return step

    steps = []
    cur = base
    for t in range(draw(st.sampled_from([1, 2, 2, 3, 3, 4, 6]))):
        if t:
            kind = draw(st.sampled_from(MUTATIONS))
            src = draw(st.sampled_from([base, cur, cur]))
            cur = mutate(src, kind, draw(st.sampled_from([0, len(src) - 1, len(src) // 2])) if src else 0)
            if len(cur) > 70:
                cur = cur[:70]
        else:
            kind = 'base set'
        sp = one_call(cur, 0)
        sp['note'] = f'{kind}; ' + sp['note']
        steps.append(sp)
    return {'steps': steps}


def classify_history(case):
    calls = [(p, s) for t, top in enumerate(case['steps']) for p, s in _walk(top, (t,))]
    yield f'top-level-calls={len(case["steps"])}'
    yield f'nested-calls={min(3, len(calls) - len(case["steps"]))}'
    yield f'n={max(len(s["validators"]) for _, s in calls) // 8 * 8}+'
    seen = {}
    for p, s in calls:
        expect, reasons, signed, total = analyse(s)
        yield ('nested ' if len(p) > 1 else '') + ('expect=accept' if expect else 'expect=reject')
        for r in reasons:
            yield 'reason=' + r
        yield 'sigs-as=' + s.get('sform', 'list')
        yield 'validators-as=' + s.get('nform', 'list')
        for inn in s.get('inner', ()):
            yield 'nested-while-reading=' + inn.get('in', 'sigs')
        ks = tuple(v['seed'] for v in s['validators'])
        ws = tuple(v['weight'] for v in s['validators'])
        if ks in seen and seen[ks] != ws:
            yield 'same-keys-other-weights-than-an-earlier-call'
            if all((a - b) % M61 == 0 for a, b in zip(seen[ks], ws)):
                yield 'weights-differ-by-multiples-of-2^61-1'
        elif ks in seen:
            yield 'same-set-as-an-earlier-call'
        seen.setdefault(ks, ws)
        if total >= 1 << 61:
            yield 'weights>=2^61'


def nontrivial_history(case):
    return sum(1 for t, top in enumerate(case['steps']) for _ in _walk(top, (t,))) >= 2


def classify(case):
    expect, reasons, signed, total = analyse(case)
    yield 'expect=accept' if expect else 'expect=reject'
    for r in sorted(reasons):
        yield 'reason=' + r
    yield f'n={min(len(case["validators"]), 12)}'
    for k in sorted({e['k'] for e in case['sigs']}):
        yield 'entry=' + k
    d = 3 * signed - 2 * total
    yield 'margin=' + (str(d) if abs(d) <= 3 else '<-3' if d < 0 else '>3')
    if total >= 1 << 32:
        yield 'weights>=2^32'
    if not case['sigs']:
        yield 'empty-signature-list'
    if any(e.get('sp', 0) for e in case['sigs']):
        yield 'id-respelled'


def nontrivial(case):
    expect, reasons, signed, total = analyse(case)
    adv = any(e['k'] not in ('valid', 'valid-alt') for e in case['sigs']) or 'duplicate-signer' in reasons
    return adv or abs(3 * signed - 2 * total) <= 3


SUBCHECKS = [
    Sub('enum-small', check, enum=enum_small, classify=classify, nontrivial=nontrivial, shards=(16, 32),
        note='n=0..5 (thorough 0..7) validators x 3 weight patterns x every signer subset x 11 list shapes'),
    Sub('random', check, strategy=strat, classify=classify, nontrivial=nontrivial, n=(4000, 300000), shards=(16, 48)),
    Sub('history-related-sets', check_history, enum=enum_related, classify=classify_history, nontrivial=nontrivial_history,
        shards=(16, 32), note='sets of 4..64 (thorough ..128) validators x 18 relations x 3 signer choices x call orders AB/BA/ABA'),
    Sub('history-nested', check_history, enum=enum_nested, classify=classify_history, nontrivial=nontrivial_history,
        shards=(16, 32), note='a check made by caller code while an enclosing check reads its lazily produced arguments'),
    Sub('history-random', check_history, strategy=lambda tier: _history(), classify=classify_history,
        nontrivial=nontrivial_history, n=(500, 60000), shards=(16, 48)),
]

# the same generated cases, several at a time, checked by threads that run at the same time (core.run_overlapping): per-call state
# kept in a place two calls share shows only there
SUBCHECKS.append(__import__('harness.core', fromlist=['overlapped']).overlapped(next(s for s in SUBCHECKS if s.name == 'random'), k=4, n=(60, 3000)))
SUBCHECKS.append(Sub('two-threads-verdicts', check_hammer, strategy=lambda tier: st.lists(_case(), min_size=3, max_size=4).map(lambda cs: {'cases': cs}),
                     classify=lambda case: ['sets=%d' % len(case['cases'])], nontrivial=lambda case: True, n=(60, 2000), shards=(8, 16),
                     note='3-4 generated signature sets and their first signatures, prepared one after the other, then verified by 4 threads '
                          'in tight loops at the same time (core.hammer); oracle = the verdict each call gets alone'))
