"""C12 — block signature sets are accepted only with a genuine validator supermajority, and always then.

Library entry point (pytoniq_core/proof/check_proof.py):
    check_block_signatures(nodes: list[ValidatorDescr], signatures: list[dict], blk: BlockIdExt)
      nodes       ValidatorDescr(type_, SigPubKey(pubkey: 32 bytes), weight)          (tlb/config.py)
      signatures  [{'node_id_short': <64 hex chars>, 'signature': <64 bytes>}, ...]   (= the parsed form of
                  liteServer.signature node_id_short:int256 signature:bytes that TlSchemas.deserialize returns)
      blk         BlockIdExt                                                           (tl/block.py)
    returns for "accepted", raises for "rejected" (any exception counts as a rejection).

Oracle, by construction of the case (the harness creates every key and knows what each list entry is):
    accept  <=>  validator set non-empty  and  every entry is a valid signature over THIS block's id
                 and every signer is a member  and  signers are pairwise distinct
                 and 3 * sum(weight of signers) > 2 * sum(weight of all members)
The signed payload is  id(ton.blockId) || root_hash || file_hash  and a signer is named by
sha256(id(pub.ed25519) || key); both constructor ids are computed by reftl from the bundled schema text
(ton_api.tl), not taken from the library.

Deliberately NOT asserted
  * which exception type a rejection raises, or its message;
  * behaviour for malformed arguments (signatures that are not 64 bytes, node ids that are not hex, keys that are not
    32 bytes, two members sharing one key, negative weights);
  * that workchain/shard/seqno of `blk` take part in the signed payload (ton.blockId carries only the two hashes).

Development aid: VERIF_IGNORE_SIG='sig1,sig2' makes this module skip those signatures (default: none).
"""
import hashlib
import os

from hypothesis import strategies as st

from harness.core import Sub, Fail, call, exc_sig, REPO, HarnessError
from harness.ref import reftl, refkeys

SCH = reftl.bundled(REPO)
reftl.self_check(SCH)
MAGIC_BLOCKID = SCH.ctor_id('ton.blockId').to_bytes(4, 'little')       # ton_api.tl: root_cell_hash:int256 file_hash:int256
MAGIC_PUB_ED25519 = SCH.ctor_id('pub.ed25519').to_bytes(4, 'little')
_IGNORE = {s.strip() for s in os.environ.get('VERIF_IGNORE_SIG', '').split(',') if s.strip()}

RULE = ('case = (validators: list of (32-byte Ed25519 seed, weight); block id; signature list: entries of kind valid-by-'
        'member-i / bit-flipped / genuine-over-a-prefixed-payload-with-the-prefix-appended / valid-for-another-block (root or file hash changed, or swapped) / valid-by-non-member / '
        'member-id-with-foreign-signature, in generated order, members may repeat). 0..12 validators; weights from '
        '{0,1,2,3, random up to 2^62} or engineered so that 3*signed - 2*total is in {-3..3} (exact 2/3 and both sides). '
        'enum-small: n=0..5 validators x 3 weight patterns x every subset of signers x 11 list shapes. '
        'non-trivial = list holds an adversarial element or a repeated signer, or |3*signed - 2*total| <= 3; '
        'distinct = distinct case')
ASSUMPTIONS = ['PyNaCl Ed25519 signing (deterministic) from generated seeds', 'hashlib.sha256',
               'reftl constructor ids of ton.blockId and pub.ed25519 (anchored: c50b6e70, 4813b4c6)']

PRIORITY = ['invalid-signature', 'signature-for-other-block', 'unknown-signer', 'empty-validator-set', 'duplicate-signer',
            'exactly-two-thirds', 'insufficient-weight']


def _key(seed_hex):
    from nacl.signing import SigningKey
    sk = SigningKey(bytes.fromhex(seed_hex))
    return sk, bytes(sk.verify_key)


def node_id(pub):
    return hashlib.sha256(MAGIC_PUB_ED25519 + pub).digest()


def spell(hx, how):
    """other spellings of the same id that bytes.fromhex reads alike: 0 lower (what the TL parser returns), 1 upper, 2 mixed
    case, 3 with blanks between bytes"""
    if how == 1:
        return hx.upper()
    if how == 2:
        return ''.join(c.upper() if i % 3 == 0 else c for i, c in enumerate(hx))
    if how == 3:
        return ' '.join(hx[i:i + 2] for i in range(0, len(hx), 2))
    return hx


def analyse(case):
    """returns (expected_accept, reasons, signed_weight, total_weight) purely from the case"""
    vals = case['validators']
    total = sum(v['weight'] for v in vals)
    reasons = set()
    if not vals:
        reasons.add('empty-validator-set')
    signers = []
    for e in case['sigs']:
        k = e['k']
        if k in ('valid', 'valid-alt'):
            signers.append(e['i'])
        elif k in ('bitflip', 'impersonate', 'prefixed', 'borrowed'):
            reasons.add('invalid-signature')
        elif k == 'othermagic':
            reasons.add('signature-for-other-block')
        elif k == 'adnl':
            reasons.add('unknown-signer')
        elif k == 'otherblk':
            reasons.add('signature-for-other-block')
        elif k == 'nonmember':
            reasons.add('unknown-signer')
        else:
            raise ValueError(k)
    if len(set(signers)) != len(signers):
        reasons.add('duplicate-signer')
    signed = sum(vals[i]['weight'] for i in set(signers))
    if 3 * signed == 2 * total:
        reasons.add('exactly-two-thirds')
    elif 3 * signed < 2 * total:
        reasons.add('insufficient-weight')
    return (not reasons), reasons, signed, total


def check(case):
    from pytoniq_core.proof.check_proof import check_block_signatures
    from pytoniq_core.tlb.config import ValidatorDescr, SigPubKey
    from pytoniq_core.tl.block import BlockIdExt
    b = case['blk']
    root, file = bytes.fromhex(b['root']), bytes.fromhex(b['file'])
    blk = BlockIdExt(b['wc'], b['shard'], b['seqno'], root, file)
    keys = [_key(v['seed']) for v in case['validators']]
    if len({pk for _, pk in keys}) != len(keys):
        raise ValueError('case outside the domain: two members share a key')
    with_addr = any(e['k'] == 'adnl' for e in case['sigs'])        # entries that name a validator by its ADNL address need one
    nodes = [ValidatorDescr('validator_addr' if v.get('addr') or with_addr else 'validator', SigPubKey(pk), v['weight'],
                            hashlib.sha256(pk).digest() if v.get('addr') or with_addr else None)
             for v, (_, pk) in zip(case['validators'], keys)]
    if b['seqno'] % 4 == 1 and nodes:
        # descriptor objects that were built with a placeholder and got their key / weight assigned afterwards (public attributes):
        # what counts is the validator set as it is when the check is called
        placeholder = bytes(32)
        nodes = [ValidatorDescr(n_.type_, SigPubKey(placeholder), 0, n_.adnl_addr) for n_ in nodes]
        for n_, v, (_, pk) in zip(nodes, case['validators'], keys):
            if b['seqno'] % 8 == 1:
                n_.public_key = SigPubKey(pk)
            else:
                n_.public_key.pubkey = pk
            n_.weight = v['weight']
    payload = MAGIC_BLOCKID + root + file
    sigs = []
    for e in case['sigs']:
        k = e['k']
        if k == 'valid':
            sk, pk = keys[e['i']]
            s = sk.sign(payload).signature
        elif k == 'valid-alt':                               # another valid signature by the same member (other nonce)
            _, pk = keys[e['i']]
            s = refkeys.ed_sign_alt(bytes.fromhex(case['validators'][e['i']]['seed']), payload, bytes([e['salt']]))
            if not refkeys.ed_verify(pk, payload, s):
                raise HarnessError('alternate-nonce signature does not verify')
        elif k == 'bitflip':
            sk, pk = keys[e['i']]
            s = bytearray(sk.sign(payload).signature)
            s[e['bit'] // 8] ^= 1 << (e['bit'] % 8)
            s = bytes(s)
        elif k == 'otherblk':
            sk, pk = keys[e['i']]
            r2, f2 = bytearray(root), bytearray(file)
            if e['how'] == 'root':
                r2[e['bit'] // 8] ^= 1 << (e['bit'] % 8)
            elif e['how'] == 'file':
                f2[e['bit'] // 8] ^= 1 << (e['bit'] % 8)
            else:                                            # swapped hashes (made different if they coincide)
                r2, f2 = f2, r2
                if r2 == f2:
                    r2[0] ^= 1
            s = sk.sign(MAGIC_BLOCKID + bytes(r2) + bytes(f2)).signature
        elif k == 'nonmember':
            sk, pk = _key(e['seed'])
            if any(pk == q for _, q in keys):
                raise ValueError('case outside the domain: non-member key is a member')
            s = sk.sign(payload).signature
        elif k == 'prefixed':                                # a member's genuine signature over (extra || payload), handed over as
            sk, pk = keys[e['i']]                            # sig64 || extra: not a signature over this block's identifier
            extra_b = hashlib.sha256(b'c12/extra/%d' % e['n']).digest()[:1 + e['n'] % 32]
            s = sk.sign(extra_b + payload).signature + extra_b
        elif k == 'othermagic':                              # a member's genuine signature over the same two hashes under ANOTHER
            sk, pk = keys[e['i']]                            # constructor id (ton.blockIdApprove, a zero id, ...): not this block id
            mg = [SCH.ctor_id('ton.blockIdApprove').to_bytes(4, 'little'), bytes(4), MAGIC_BLOCKID[::-1], MAGIC_PUB_ED25519][e['m'] % 4]
            s = sk.sign(mg + root + file).signature
        elif k == 'adnl':                                    # a genuine signature of member i listed under i's ADNL address (the other
            sk, pk = keys[e['i']]                            # 256-bit name a validator_addr entry carries) instead of its short id
            s = sk.sign(payload).signature
            sigs.append({'node_id_short': spell(hashlib.sha256(pk).digest().hex(), e.get('sp', 0)), 'signature': s})
            continue
        elif k == 'borrowed':                                # member i's id over ANOTHER member's genuine signature bytes (that
            _, pk = keys[e['i']]                             # member's own entry may stand earlier in the list, or in an earlier call)
            s = keys[e['from']][0].sign(payload).signature
        elif k == 'impersonate':                             # member's id, signature made with a foreign key
            sk, _ = _key(e['seed'])
            _, pk = keys[e['i']]
            s = sk.sign(payload).signature
        else:
            raise ValueError(k)
        sigs.append({'node_id_short': spell(node_id(pk).hex(), e.get('sp', 0)), 'signature': s})
    expect, reasons, signed, total = analyse(case)
    ok, res = call(check_block_signatures, nodes, sigs, blk)
    f = None
    summ = f'{len(nodes)} validators total weight {total}, {len(sigs)} entries {[e["k"] for e in case["sigs"]][:14]}, ' \
           f'distinct valid signed weight {signed} (3*signed-2*total = {3 * signed - 2 * total})'
    if ok and not expect:
        why = next(r for r in PRIORITY if r in reasons)
        f = Fail(f'accepted/{why}', f'accepted although {sorted(reasons)}: {summ}')
    elif not ok and expect and any(e.get('sp', 0) for e in case['sigs']):
        f = None          # ids in a spelling other than the TL parser's lower-case hex: accepting them is not required
    elif not ok and expect:
        sig = 'rejected/valid-supermajority'
        if type(res).__name__ != 'ProofError':
            sig += '/' + exc_sig(res)
        f = Fail(sig, f'{res!r}: {summ}')
    if f is None and ok and expect:
        # no verdict carried over: the very same entries, just accepted for this block, presented for a block id that differs
        # only in the file hash / only in the root hash are signatures over another block
        for which in ('file', 'root'):
            r2, f2 = bytearray(root), bytearray(file)
            (f2 if which == 'file' else r2)[31] ^= 1
            blk2 = BlockIdExt(b['wc'], b['shard'], b['seqno'], bytes(r2), bytes(f2))
            ok2, _ = call(check_block_signatures, nodes, sigs, blk2)
            if ok2:
                f = Fail(f'accepted/signature-for-other-block/after-earlier-acceptance/{which}-hash-differs',
                         f'a set just accepted for (root, file) was accepted again for a block with another {which} hash: {summ}')
                break
        if f is None:
            ok3, res3 = call(check_block_signatures, nodes, sigs, blk)
            if not ok3:
                f = Fail('rejected/valid-supermajority/second-call', f'{res3!r}: accepted once, rejected when presented again: {summ}')
    if f is not None and f.signature in _IGNORE:
        return None
    return f


# --------------------------------------------------------------------------------------------------
# generation

def _seed(tag):
    return hashlib.sha256(tag.encode()).hexdigest()


def _blk(tag):
    h = hashlib.sha256(('blk' + tag).encode()).digest()
    return {'wc': -1, 'shard': -2 ** 63, 'seqno': int.from_bytes(h[:3], 'big'),
            'root': hashlib.sha256(h + b'r').hexdigest(), 'file': hashlib.sha256(h + b'f').hexdigest()}


def enum_small(tier):
    nmax = 5 if tier == 'quick' else 7
    for n in range(0, nmax + 1):
        for wp in ('ones', 'ramp', 'with-zero'):
            w = [1] * n if wp == 'ones' else [i + 1 for i in range(n)] if wp == 'ramp' else [i % 3 for i in range(n)]
            vals = [{'seed': _seed(f'v{n}/{i}'), 'weight': w[i]} for i in range(n)]
            for mask in range(1 << n):
                members = [i for i in range(n) if (mask >> i) & 1]
                base = [{'k': 'valid', 'i': i} for i in members]
                shapes = [('plain', base), ('reversed', base[::-1])]
                if members:
                    m = members[0]
                    shapes.append(('dup', base + [{'k': 'valid', 'i': m}]))
                    shapes.append(('dup-x3', [{'k': 'valid', 'i': m}] * 3 + base[1:]))
                    shapes.append(('dup-alt', base + [{'k': 'valid-alt', 'i': m, 'salt': mask % 256}]))
                    shapes.append(('dup-respelled', base + [{'k': 'valid', 'i': m, 'sp': 1 + mask % 3}]))
                    shapes.append(('dup-alt-respelled', [{'k': 'valid-alt', 'i': m, 'salt': 3, 'sp': 1 + (mask + 1) % 3}] + base))
                    shapes.append(('alt-only', [{'k': 'valid-alt', 'i': i, 'salt': i} for i in members]))
                    shapes.append(('bitflip', base[1:] + [{'k': 'bitflip', 'i': m, 'bit': (mask * 37) % 512}]))
                    shapes.append(('otherblk', [{'k': 'otherblk', 'i': m, 'how': ('root', 'file', 'swap')[mask % 3],
                                                 'bit': (mask * 11) % 256}] + base[1:]))
                    shapes.append(('impersonate', base[1:] + [{'k': 'impersonate', 'i': m, 'seed': _seed(f'x{n}/{mask}')}]))
                    shapes.append(('prefixed', base[1:] + [{'k': 'prefixed', 'i': m, 'n': mask}]))
                    if len(members) >= 1 and n >= 2:
                        other = next(i for i in range(n) if i != m)
                        # the genuine entry of m first, then m's signature bytes again under another member's id (and the reverse order)
                        shapes.append(('borrowed-after-genuine', base + [{'k': 'borrowed', 'i': other, 'from': m}] if other not in members
                                       else [e for e in base if e['i'] != other] + [{'k': 'borrowed', 'i': other, 'from': m}]))
                        shapes.append(('borrowed-before-genuine', [{'k': 'borrowed', 'i': other, 'from': m}] + [e for e in base if e['i'] != other]))
                    shapes.append(('prefixed-all', [{'k': 'prefixed', 'i': i, 'n': mask + i} for i in members]))
                    shapes.append(('othermagic', base[1:] + [{'k': 'othermagic', 'i': m, 'm': mask}]))
                    shapes.append(('othermagic-all', [{'k': 'othermagic', 'i': i, 'm': 0} for i in members]))
                    shapes.append(('adnl-instead', base[1:] + [{'k': 'adnl', 'i': m}]))
                    shapes.append(('adnl-in-addition', base + [{'k': 'adnl', 'i': m}]))
                shapes.append(('nonmember', base + [{'k': 'nonmember', 'seed': _seed(f'nm{n}/{mask}')}]))
                for sname, sl in shapes:
                    if sname == 'reversed' and len(base) < 2:
                        continue
                    yield {'validators': vals, 'blk': _blk(f'{n}/{wp}/{mask}'), 'sigs': sl}


@st.composite
def _case(draw):
    n = draw(st.sampled_from([0, 1, 1, 2, 2, 3, 3, 4, 5, 6, 7, 8, 9, 10, 11, 12]))
    tag = draw(st.binary(min_size=4, max_size=4)).hex()
    seeds = [_seed(f'{tag}/{i}') for i in range(n)]
    mode = draw(st.sampled_from(['free', 'free', 'threshold', 'threshold', 'threshold', 'all-sign', 'repeat-one']))
    wsmall = st.sampled_from([0, 1, 1, 2, 3])
    wany = st.one_of(wsmall, wsmall, st.integers(0, 1 << 62), st.sampled_from([(1 << 62), (1 << 32) - 1, 1 << 32]))
    if n == 0:
        signers = []
        weights = []
    elif mode == 'threshold':
        k = draw(st.integers(1, n))
        order = draw(st.permutations(range(n)))
        signers, others = list(order[:k]), list(order[k:])
        wo = {i: draw(wany) for i in others}
        o = sum(wo.values())
        d = draw(st.sampled_from([-3, -2, -1, 0, 0, 1, 1, 2, 3]))       # 3*s - 2*(s+o) = s - 2*o =: d
        s = max(0, 2 * o + d)
        # split s over the k signers
        cuts = sorted(draw(st.integers(0, s)) for _ in range(k - 1))
        parts = [b - a for a, b in zip([0] + cuts, cuts + [s])]
        ws = dict(zip(signers, parts))
        weights = [ws[i] if i in ws else wo[i] for i in range(n)]
    else:
        weights = [draw(wany) for _ in range(n)]
        if mode == 'all-sign':
            signers = list(draw(st.permutations(range(n))))
        elif mode == 'repeat-one':
            signers = [draw(st.integers(0, n - 1))]
        else:
            signers = [i for i in draw(st.permutations(range(n))) if draw(st.booleans())]
    sigs = [{'k': 'valid', 'i': i} for i in signers]
    # adversarial elements
    adv = draw(st.sampled_from(['none', 'none', 'none', 'dup', 'dup-many', 'bitflip', 'otherblk', 'nonmember',
                                'impersonate', 'prefixed', 'borrowed', 'othermagic', 'adnl', 'mix']))
    if mode == 'repeat-one' and adv == 'none':
        adv = 'dup-many'
    extra = []
    kinds = {'dup': ['dup'], 'dup-many': ['dup'] * draw(st.integers(2, 8)), 'mix': draw(st.lists(
        st.sampled_from(['dup', 'bitflip', 'otherblk', 'nonmember', 'impersonate', 'prefixed', 'borrowed', 'othermagic', 'adnl']), min_size=2, max_size=4))}.get(adv, [adv])
    for j, kd in enumerate(kinds):
        if kd == 'none':
            continue
        if kd == 'nonmember' or n == 0:
            extra.append({'k': 'nonmember', 'seed': _seed(f'{tag}/nm{j}')})
            continue
        if kd == 'dup':
            pool = signers or list(range(n))
            extra.append({'k': 'valid', 'i': draw(st.sampled_from(pool))})
            if not signers:
                extra.append(dict(extra[-1]))
            if draw(st.booleans()):                          # the repeat is a *different* valid signature
                extra[-1] = {'k': 'valid-alt', 'i': extra[-1]['i'], 'salt': draw(st.integers(0, 255))}
            if draw(st.integers(0, 2)) == 0:                 # ... whose signer id is spelled differently
                extra[-1]['sp'] = draw(st.integers(1, 3))
        elif kd == 'bitflip':
            extra.append({'k': 'bitflip', 'i': draw(st.integers(0, n - 1)), 'bit': draw(st.integers(0, 511))})
        elif kd == 'otherblk':
            extra.append({'k': 'otherblk', 'i': draw(st.integers(0, n - 1)),
                          'how': draw(st.sampled_from(['root', 'file', 'swap'])), 'bit': draw(st.integers(0, 255))})
        elif kd == 'impersonate':
            extra.append({'k': 'impersonate', 'i': draw(st.integers(0, n - 1)), 'seed': _seed(f'{tag}/im{j}')})
        elif kd == 'prefixed':
            extra.append({'k': 'prefixed', 'i': draw(st.integers(0, n - 1)), 'n': draw(st.integers(0, 255))})
        elif kd == 'othermagic':
            extra.append({'k': 'othermagic', 'i': draw(st.integers(0, n - 1)), 'm': draw(st.integers(0, 3))})
        elif kd == 'adnl':
            extra.append({'k': 'adnl', 'i': draw(st.integers(0, n - 1))})
        elif kd == 'borrowed':
            if n < 2:
                extra.append({'k': 'nonmember', 'seed': _seed(f'{tag}/nm{j}')})
            else:
                src = draw(st.sampled_from(signers)) if signers else draw(st.integers(0, n - 1))
                dst = draw(st.sampled_from([i for i in range(n) if i != src]))
                sigs[:] = [e for e in sigs if e.get('i') != dst]          # dst has no genuine entry of its own: its only entry is the borrowed one
                extra.append({'k': 'borrowed', 'i': dst, 'from': src})
    sigs = list(draw(st.permutations(sigs + extra))) if extra else sigs
    h = st.one_of(st.binary(min_size=32, max_size=32), st.sampled_from([b'\x00' * 32, b'\xff' * 32]))
    blk = {'wc': draw(st.sampled_from([-1, 0, 1, -2 ** 31, 2 ** 31 - 1])),
           'shard': draw(st.sampled_from([-2 ** 63, 0, 1 << 62, -1])), 'seqno': draw(st.integers(0, 2 ** 31 - 1)),
           'root': draw(h).hex(), 'file': draw(h).hex()}
    vals = [{'seed': seeds[i], 'weight': weights[i]} for i in range(n)]
    if n and draw(st.integers(0, 3)) == 0:
        for v in vals:
            v['addr'] = True
    return {'validators': vals, 'blk': blk, 'sigs': sigs}


def strat(tier):
    return _case()


def classify(case):
    expect, reasons, signed, total = analyse(case)
    yield 'expect=accept' if expect else 'expect=reject'
    for r in sorted(reasons):
        yield 'reason=' + r
    yield f'n={min(len(case["validators"]), 12)}'
    for k in sorted({e['k'] for e in case['sigs']}):
        yield 'entry=' + k
    d = 3 * signed - 2 * total
    yield 'margin=' + (str(d) if abs(d) <= 3 else '<-3' if d < 0 else '>3')
    if total >= 1 << 32:
        yield 'weights>=2^32'
    if not case['sigs']:
        yield 'empty-signature-list'
    if any(e.get('sp', 0) for e in case['sigs']):
        yield 'id-respelled'


def nontrivial(case):
    expect, reasons, signed, total = analyse(case)
    adv = any(e['k'] not in ('valid', 'valid-alt') for e in case['sigs']) or 'duplicate-signer' in reasons
    return adv or abs(3 * signed - 2 * total) <= 3


SUBCHECKS = [
    Sub('enum-small', check, enum=enum_small, classify=classify, nontrivial=nontrivial, shards=(16, 32),
        note='n=0..5 (thorough 0..7) validators x 3 weight patterns x every signer subset x 11 list shapes'),
    Sub('random', check, strategy=strat, classify=classify, nontrivial=nontrivial, n=(4000, 300000), shards=(16, 48)),
]
