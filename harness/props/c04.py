"""
C04 — emitted BoC bytes conform to the TON serialized_boc wire format.
Oracle: harness/ref/refboc.decode_strict accepts the bytes and returns the same DAG (reference hashes): generic magic, flag
bits = requested options and flags = 0, size/off_bytes sufficient, cells = number of distinct cells (each once, all
reachable), roots = 1, absent = 0, tot_cells_size = actual, every reference points to a later cell, index (when
present) = cumulative end offsets (entry >> 1 when cache bits are on) with last entry = tot_cells_size, CRC-32C
(bitwise reference, little-endian) over all preceding bytes, no trailing bytes.
Not asserted: minimal widths; a particular order among the valid topological orders; the per-cell cache bit value.
"""
from hypothesis import strategies as st
from harness.core import Sub, Fail, call, exc_sig, look, fake_byteorder
from harness.gen import dag, boccases
from harness.ref import refcell as rc, refboc

RULE = ('case = DAG spec; the library serialises the root under each of the 6 valid option sets and the independent strict '
        'decoder must accept every emission and return the same DAG. boundary sub-check as in C03. non-trivial = more than '
        'one cell; distinct = distinct spec')
ASSUMPTIONS = ['harness/ref/refboc.py transcription of crypto/tl/boc.tlb and refcrc bitwise CRC-32C']


def check(case):
    cells = dag.build_ref(case['spec'])
    ok, lib = call(dag.lib_from_ref, cells, 'builder')
    if not ok:
        return Fail('construction-raises', f'{exc_sig(lib)}: {lib!r}')
    root_r, root = cells[-1], lib[-1]
    ndistinct = rc.count_distinct(root_r)
    if 'name' not in case:
        dag.disturb(lib)            # history: inner nodes serialised on their own, builders/slices derived and used
    small = 'name' not in case
    if small and max(root_r.D(i) for i in range(4)) < 1023:
        # the same tree once more, held in an application's own Cell subclass (parsed from the root's bag into it), beside the
        # plain one under a new parent: cells are values - the bag of the parent holds every distinct cell once, whatever classes
        from pytoniq_core.boc.builder import Builder
        ok, twin = call(lambda: dag.cell_subclass().one_from_boc(root.to_boc()))
        if not ok:
            return Fail('construction-raises/parse-into-Cell-subclass', f'{exc_sig(twin)}: {twin!r}')
        inner = twin.refs[-1] if twin.refs else twin
        ok, parent = call(lambda: Builder().store_bits('1011').store_ref(root).store_ref(twin).store_ref(inner).end_cell())
        if not ok:
            return Fail('construction-raises/parent-over-plain-and-subclass-twin', f'{exc_sig(parent)}: {parent!r}')
        inner_r = root_r.refs[-1] if root_r.refs else root_r
        f = _conforms(parent, rc.RCell('1011', [root_r, root_r, inner_r], False), ndistinct + 1, (1, 1, 0), 'plain-and-subclass-twins/')
        if f:
            return f
    for oi, (idx, crc, cache) in enumerate(boccases.OPTSETS):
        if small and oi % 2:
            look(root)              # the caller printed the tree in between: it is what it was
        f = _conforms(root, root_r, ndistinct, (idx, crc, cache), '')
        if f:
            return f
    if small:
        # the wire format does not depend on the host: the same bytes on a machine of the other byte order
        with fake_byteorder():
            f = _conforms(root, root_r, ndistinct, (1, 1, 1), 'host-of-the-other-byte-order/')
        if f:
            return f
    return None


def _conforms(root, root_r, ndistinct, opts, pre):
    if True:
        idx, crc, cache = opts
        tag = f'idx{idx}crc{crc}cache{cache}'
        ok, boc = call(root.to_boc, bool(idx), bool(crc), bool(cache))
        if not ok:
            return Fail(f'to_boc-raises/{type(boc).__name__}', f'{tag}: {exc_sig(boc)}: {boc!r}')
        try:
            h = refboc.decode_strict(bytes(boc))
        except refboc.RefBocError as e:
            msg = str(e)
            import re
            cls = re.sub(r'[0-9]+', '#', msg)[:60]
            return Fail(f'{pre}nonconforming/{cls}/{tag if "index" in msg else "any"}', f'{tag}: strict decoder: {msg}; boc={bytes(boc).hex()[:400]}')
        if h['magic'] != 'generic':
            return Fail('header/magic', tag)
        if (h['has_idx'], h['has_crc'], h['has_cache_bits']) != (bool(idx), bool(crc), bool(cache)):
            return Fail('header/flag-bits-differ-from-requested-options', f'{tag}: {h["has_idx"]},{h["has_crc"]},{h["has_cache_bits"]}')
        if h['roots'] != 1 or h['absent'] != 0:
            return Fail('header/roots-absent', f'{tag}: roots={h["roots"]} absent={h["absent"]}')
        if h['cells'] != ndistinct:
            return Fail(pre + 'cells/count-differs-from-distinct-cells', f'{tag}: {h["cells"]} vs {ndistinct}')
        if h['root_cells'][0].repr_hash() != root_r.repr_hash():
            return Fail(pre + 'decoded-root-hash-differs', tag)
    return None


def enum_boundary(tier):
    for name, spec in boccases.boundary_specs(tier):
        yield {'spec': spec, 'name': name}
    for total in (65537, 131073, 1 << 20, 1000000, 100000) + ((3 * (1 << 18), (1 << 20) + 1, 1 << 21) if tier != 'quick' else ()):
        # bags whose length before the checksum is exactly a block boundary (+1) of anything that works block by block
        yield {'spec': boccases.bag_of_total_length(total), 'name': 'bag-length=%d' % total}
    if tier == 'quick':
        for n in (65535, 65536):       # the 2-byte / 3-byte reference-width boundary (thorough also has 65 537)
            yield {'spec': boccases.heap_spec(n), 'name': 'cells=%d' % n}


def strat(tier):
    return st.fixed_dictionaries({'spec': boccases.st_spec(tier)})


from harness.props.c03 import classify, nt  # same case shape

SUBCHECKS = [
    Sub('boundary-sizes', check, enum=enum_boundary, classify=classify, nontrivial=nt, shards=(16, 24), case_cpu_s=600),
    Sub('dags-x-6-optionsets', check, strategy=strat, classify=classify, nontrivial=nt, n=(1500, 30000), shards=(16, 32)),
]

# the same generated cases, several at a time, checked by threads that run at the same time (core.run_overlapping): per-call state
# kept in a place two calls share shows only there
SUBCHECKS.append(__import__('harness.core', fromlist=['overlapped']).overlapped(next(s for s in SUBCHECKS if s.name == 'dags-x-6-optionsets'), k=2, n=(30, 800)))
