"""
C01 — cell hash and depth are the TON representation hash and depth (ordinary cells).

Oracle: harness/ref/refcell.py (recursive definition from the TVM white paper).  For every node of the generated
DAG and every construction route: .hash, get_hash(0..3), get_depth(0..3) equal the reference;
calculate_representation_hash() == .hash; a == b  <=>  reference hashes equal; equal => hash() equal;
dict/set keyed by cells collapses exactly the hash-equal ones.
Not asserted: == against non-cells; cells with more than 1023 bits; exotic cells (C02).
"""
from hypothesis import strategies as st
from harness.core import Sub, Fail, call, exc_sig
from harness.gen import dag
from harness.ref import refcell as rc, refboc

RULE = ('case = ordinary-cell DAG spec (bottom-up node list, refs with repetition) + primary construction route; '
        'every node is re-derived through copy / begin_parse().to_cell() / to_builder().end_cell() / store_cell / '
        'store_slice and the root through a reference-encoded BoC. exhaustive sub-check: every bit length 0..1023 x '
        '{zeros, ones, pseudo-random} x 0..4 refs. non-trivial = has a reference or a bit length not a multiple of 8; '
        'distinct = distinct spec')
ASSUMPTIONS = ['harness/ref/refcell.py (agrees with the two hashes pinned in tests/test_cell.py)', 'hashlib.sha256']

ROUTES = ['builder', 'tvm', 'plain']

# what a builder may go on with after end_cell(): (name, call, the bits it appends)
CONTINUATIONS = [
    ('store_bits', lambda b: b.store_bits('1'), '1'),
    ('store_uint', lambda b: b.store_uint(5, 3), '101'),
    ('store_int', lambda b: b.store_int(-2, 3), '110'),
    ('store_bytes', lambda b: b.store_bytes(b'\xa5'), '10100101'),
    ('store_string', lambda b: b.store_string('x'), '01111000'),
    ('store_bit', lambda b: b.store_bit(1), '1'),
    ('store_bit_int', lambda b: b.store_bit_int(0), '0'),
    ('store_bool', lambda b: b.store_bool(True), '1'),
    ('store_coins', lambda b: b.store_coins(1), '00010000' + '0001'),
    ('store_var_uint', lambda b: b.store_var_uint(255, 3), '001' + '11111111'),
    ('store_var_int', lambda b: b.store_var_int(-1, 2), '01' + '11111111'),
    ('store_address-none', lambda b: b.store_address(None), '00'),
    ('store_maybe_ref-none', lambda b: b.store_maybe_ref(None), '0'),
    ('store_dict-none', lambda b: b.store_dict(None), '0'),
    ('store_snake_bytes', lambda b: b.store_snake_bytes(b'\x5a'), '01011010'),
    ('store_snake_string', lambda b: b.store_snake_string('y'), '01111001'),
    ('store_cell', lambda b: b.store_cell(_leafcell('1001')), '1001'),
    ('store_slice', lambda b: b.store_slice(_leafcell('0110').begin_parse()), '0110'),
    ('bits-extend', lambda b: b.bits.extend('01'), '01'),
]


def _leafcell(bits):
    from pytoniq_core.boc.builder import Builder
    return Builder().store_bits(bits).end_cell()


def _std_repr(r):
    """CellRepr of an ordinary level-0 cell: d1 d2, data with the completion tag, the children's depths, the children's hashes"""
    return bytes([len(r.refs), r.d2()]) + r.data_padded() + b''.join(c.D(0).to_bytes(2, 'big') for c in r.refs) + \
        b''.join(c.H(0) for c in r.refs)


def node_problem(r, l, what):
    """compare one reference cell with one library cell"""
    h = r.H(0)
    if l.bits.to01() != r.bits or len(l.refs) != len(r.refs):
        return Fail(f'content-differs/{what}', f'cell holds {len(l.bits)} bits / {len(l.refs)} refs, expected {len(r.bits)} / {len(r.refs)}')
    if l.hash != h:
        return Fail(f'hash-differs/{what}', f'bits={len(r.bits)} refs={len(r.refs)} lib={l.hash.hex()} ref={h.hex()}')
    for i in range(4):
        ok, v = call(l.get_hash, i)
        if not ok or v != r.H(i):
            return Fail(f'get_hash-differs/{what}', f'level {i}: {v!r} vs {r.H(i).hex()}')
        ok, v = call(l.get_depth, i)
        if not ok or v != r.D(i):
            return Fail(f'get_depth-differs/{what}', f'level {i}: {v!r} vs {r.D(i)}')
    ok, v = call(l.calculate_representation_hash)
    if not ok:
        return Fail('calculate_representation_hash/raises', f'{exc_sig(v)}: {v!r} (bits={len(r.bits)} refs={len(r.refs)})')
    if v != l.hash:
        return Fail(f'calculate_representation_hash/differs-from-cached/{what}', f'{v.hex()} vs {l.hash.hex()}')
    # the representation itself (what the explicit recomputation hashes) is the standard one: d1 d2, padded data, depths, hashes
    ok, rep = call(l.get_representation)
    if ok and isinstance(rep, (bytes, bytearray)) and bytes(rep) != _std_repr(r):
        return Fail(f'get_representation/differs-from-standard/{what}', f'{bytes(rep).hex()[:80]} vs {_std_repr(r).hex()[:80]}')
    ok, dat = call(lambda: l.data)
    if ok and isinstance(dat, (bytes, bytearray)) and bytes(dat) != r.data_padded():
        return Fail(f'data/differs-from-padded-data/{what}', f'{bytes(dat).hex()[:80]} vs {r.data_padded().hex()[:80]}')
    return None


def derive_all(l):
    """alternative routes to 'the same' cell; yields (name, thunk)"""
    from pytoniq_core.boc.builder import Builder
    from pytoniq_core.boc.slice import Slice
    yield 'copy', lambda: l.copy()
    yield 'begin_parse.to_cell', lambda: l.begin_parse().to_cell()
    yield 'to_slice.to_cell', lambda: l.to_slice().to_cell()
    yield 'Slice.from_cell.to_cell', lambda: Slice.from_cell(l).to_cell()
    yield 'to_builder.end_cell', lambda: l.to_builder().end_cell()
    yield 'to_builder.to_cell', lambda: l.to_builder().to_cell()
    yield 'store_cell', lambda: Builder().store_cell(l).end_cell()
    yield 'store_slice', lambda: Builder().store_slice(l.begin_parse()).end_cell()
    yield 'slice.copy.to_cell', lambda: l.begin_parse().copy().to_cell()
    yield 'slice.to_builder.end_cell', lambda: l.begin_parse().to_builder().end_cell()
    # ... and the object the cell was converted from keeps being used afterwards

    def _after_slice_reads():
        s = l.begin_parse()
        c = s.to_cell()
        if len(s.bits):
            s.load_bits(min(7, len(s.bits)))
        if s.refs:
            s.load_ref()
        return c
    yield 'slice.to_cell-then-slice-is-read', _after_slice_reads

    def _after_builder_stores():
        b = l.to_builder()
        c = b.end_cell()
        if len(c.bits) < 1023:
            b.store_bits('1')
        if len(c.refs) < 4:
            b.store_ref(l)
        return c
    yield 'to_builder.end_cell-then-builder-stores', _after_builder_stores

    def _copy_then_source_used():
        c = l.copy()
        sl = l.begin_parse()
        if len(sl.bits):
            sl.skip_bits(1)
        bb = l.to_builder()
        if len(l.refs) < 4:
            bb.store_ref(c)
        return c
    yield 'copy-then-source-derivatives-used', _copy_then_source_used


def check(case):
    from pytoniq_core.boc.cell import Cell
    spec = case['spec']
    cells = dag.build_ref(spec)
    route = case.get('route', 'builder')
    ok, lib = call(dag.lib_from_ref, cells, route)
    if not ok:
        return Fail(f'construction-raises/{route}', f'{exc_sig(lib)}: {lib!r}')
    for r, l in zip(cells, lib):
        f = node_problem(r, l, route)
        if f:
            return f
    e = Cell.empty()
    if e.hash != rc.RCell('', [], False).H(0) or len(e.bits) or e.refs:
        return Fail('Cell.empty/not-the-empty-cell', e.hash.hex())
    for r, l in zip(cells, lib):
        for i, ch in enumerate(r.refs):
            ok, got = call(lambda: l[i])
            if not ok or getattr(got, 'hash', None) != ch.H(0):
                return Fail('getitem/not-the-ith-reference', f'cell[{i}] of a cell with {len(r.refs)} refs: {got!r}')
    # an operation the library must refuse (a cell that would be deeper than 1023; an over-full builder; a corrupt bag) happens
    # in between: what is built and hashed afterwards is not affected by it
    from pytoniq_core.boc.builder import Builder as _B
    ok, deep = call(lambda: _B(type_=1).store_bits(rc.pruned_raw(1, [b'\x11' * 32], [1023]).bits).end_cell())
    if ok:
        call(lambda: _B().store_ref(deep).end_cell())
    call(lambda: _B().store_bits('1' * 1023).store_bits('1'))
    call(Cell.one_from_boc, b'\xb5\xee\x9c\x72\x01\x01\x02\x01\x00\x05\x00\x01\x01\x00\x01')
    ok, lib_after = call(dag.lib_from_ref, cells, route)
    if not ok:
        return Fail(f'construction-raises/{route}/after-refused-operations', f'{exc_sig(lib_after)}: {lib_after!r}')
    for r, l in zip(cells, lib_after):
        f = node_problem(r, l, route + '/after-refused-operations')
        if f:
            return f
    # history: derived builders / slices / serialisations of inner nodes are used; the cells are values and stay what they were
    dag.disturb(lib)
    for r, l in zip(cells, lib):
        f = node_problem(r, l, route + '/after-derived-objects-were-used')
        if f:
            return f
    # derived routes (on up to 6 nodes incl. the root, chosen deterministically)
    n = len(cells)
    picks = sorted({n - 1, 0, n // 2, n // 3, (2 * n) // 3, max(0, n - 2)})
    for k in picks:
        r, l = cells[k], lib[k]
        for name, thunk in derive_all(l):
            ok, d = call(thunk)
            if not ok:
                return Fail(f'derive-raises/{name}', f'{exc_sig(d)}: {d!r}')
            f = node_problem(r, d, f'{route}+{name}')
            if f:
                return f
            if not (d == l) or not (l == d) or hash(d) != hash(l):
                return Fail(f'equality/derived-not-equal/{name}', f'node {k}')
    # "converted from a slice" - also from a slice that has been read from: the cell is what the slice still holds
    from pytoniq_core.boc.builder import Builder
    pos0 = {id(c): i for i, c in enumerate(cells)}
    for k in picks:
        r, l = cells[k], lib[k]
        nb, nr = len(r.bits), len(r.refs)
        for j, q in sorted({(0, nr), (min(3, nb), min(1, nr)), (nb, nr), (min(1, nb), 0), (nb // 2, max(0, nr - 1))}):
            if (j, q) == (0, 0):
                continue
            rest = rc.RCell(r.bits[j:], list(r.refs[q:]), False)

            def _consumed():
                s = l.begin_parse()
                if j:
                    s.load_bits(j)
                for _ in range(q):
                    s.load_ref()
                return s
            def _windowed():
                # the slice as the library's own VmStack parser hands it out for a VmCellSlice whose window starts after j bits / q refs
                from pytoniq_core.tlb.vm_stack import VmStack
                st_ = (Builder().store_uint(1, 24).store_ref(Builder().end_cell()).store_uint(4, 8).store_ref(l)
                       .store_uint(j, 10).store_uint(nb, 10).store_uint(q, 3).store_uint(nr, 3).end_cell())
                return VmStack.deserialize(st_.begin_parse())[0]
            deep = r.D(0) >= 1022                          # the stack cell around a depth-1023 cell cannot exist
            for name, thunk in (('to_cell', lambda: _consumed().to_cell()),
                                ('vmstack-window.to_cell', (lambda: _consumed().to_cell()) if deep else (lambda: _windowed().to_cell())),
                                ('vmstack-window.to_builder.end_cell', (lambda: _consumed().to_cell()) if deep else
                                 (lambda: _windowed().to_builder().end_cell())),
                                ('copy.to_cell', lambda: _consumed().copy().to_cell()),
                                ('to_builder.end_cell', lambda: _consumed().to_builder().end_cell()),
                                ('store_slice', lambda: Builder().store_slice(_consumed()).end_cell())):
                ok, d = call(thunk)
                if not ok:
                    return Fail(f'derive-raises/consumed-slice.{name}', f'{exc_sig(d)}: {d!r} after {j} bits, {q} refs')
                f = node_problem(rest, d, f'{route}+consumed-slice.{name}' + ('/all-refs-read' if q == nr and nr else ''))
                if f:
                    return Fail(f.signature, f'{f.detail} (slice of a cell with {nb} bits / {nr} refs after reading {j} bits, {q} refs)')
    # the builder a cell came from keeps being used (cells sharing a prefix): the finished cell must stay what it was
    pos = {id(c): i for i, c in enumerate(cells)}
    for pi, k in enumerate(picks):
        r = cells[k]
        b = Builder().store_bits(r.bits)
        for x in r.refs:
            b.store_ref(lib[pos[id(x)]])
        ok, first = call(b.to_cell if pi % 2 else b.end_cell)            # to_cell() is the other spelling of end_cell()
        if not ok:
            return Fail('construction-raises/builder', f'{exc_sig(first)}: {first!r}')
        # the first write after end_cell() goes through a different store method from case to case (they do not all share code)
        room = 1023 - len(r.bits)
        cont = [c for c in CONTINUATIONS if len(c[2]) <= room]
        cname, cfun, more_bits = cont[(k + pi + len(r.bits)) % len(cont)] if cont else ('none', None, '')
        more_ref = len(r.refs) < 4
        ok, e = call(lambda: (cfun(b) if cfun else None, b.store_ref(lib[0]) if more_ref else None))
        if not ok:
            return Fail('builder-reuse/store-after-end_cell-raises', f'{cname}: {exc_sig(e)}: {e!r}')
        ok, second = call(b.end_cell if pi % 2 else b.to_cell)
        if not ok:
            return Fail('builder-reuse/second-end_cell-raises', f'{exc_sig(second)}: {second!r}')
        f = node_problem(r, first, 'builder-reused/first-cell')
        if f:
            return Fail(f.signature, f'{f.detail} (the builder went on with {cname})')
        r2 = rc.RCell(r.bits + more_bits, list(r.refs) + ([cells[0]] if more_ref else []), False) if cells[0].D(0) < 1023 or not more_ref else None
        if r2 is not None:
            f = node_problem(r2, second, 'builder-reused/second-cell')
            if f:
                return f
    # parsed from a reference-encoded BoC
    root_r = cells[-1]
    boc = refboc.encode([root_r], has_crc=bool(case.get('crc')), has_idx=bool(case.get('idx')))
    ok, parsed = call(Cell.one_from_boc, boc)
    if not ok:
        return Fail('parse-reference-boc-raises', f'{exc_sig(parsed)}: {parsed!r} boc={boc.hex()[:200]}')
    # walk parsed tree against reference (memo per case, objects alive)
    stack = [(root_r, parsed)]
    seen = set()
    while stack:
        r, l = stack.pop()
        if id(r) in seen:
            continue
        seen.add(id(r))
        f = node_problem(r, l, 'parsed')
        if f:
            return f
        if len(l.refs) != len(r.refs):
            return Fail('parsed/ref-count', '')
        stack.extend(zip(r.refs, l.refs))
    if not (parsed == lib[-1]):
        return Fail('equality/parsed-not-equal-built', '')
    # the same bag parsed into an application's own Cell subclass (the readers take the class to build): those are cells like any
    # other - same hashes, equal to and colliding with the plain cells of the same hash, in both directions
    App = dag.cell_subclass(dag.TEMPLATE_BAG if len(boc) % 2 else None)
    ok, sub = call(App.one_from_boc, boc)
    if not ok:
        return Fail('parse-reference-boc-raises/into-a-Cell-subclass', f'{exc_sig(sub)}: {sub!r} boc={boc.hex()[:200]}')
    stack = [(root_r, sub)]
    seen = set()
    while stack:
        r, l = stack.pop()
        if id(r) in seen:
            continue
        seen.add(id(r))
        f = node_problem(r, l, 'parsed/into-a-Cell-subclass')
        if f:
            return f
        stack.extend(zip(r.refs, l.refs))
    ok, eqs = call(lambda: (sub == lib[-1], lib[-1] == sub, sub == parsed, hash(sub) == hash(lib[-1]), len({sub, lib[-1], parsed}),
                            len({lib[-1]: 1, sub: 2}), sub.copy() == sub, sub == sub.copy(), sub != lib[-1]))
    if not ok:
        return Fail('equality/raises', repr(eqs))
    if eqs != (True, True, True, True, 1, 1, True, True, False):
        return Fail('equality/subclass-instance-not-equal-to-plain-cell-of-the-same-hash', f'{eqs}')
    # a bag whose STORED hashes are genuine, and one whose stored hashes are wrong: a reader may refuse the second, but the
    # hash it reports for a cell is always the hash of the cell's content
    order = rc.topo([root_r])
    sel = set(range(0, len(order), 2)) if case.get('idx') else set(range(len(order)))
    for bogus in (False, True, 'hash-only'):
        boc = refboc.encode([root_r], has_crc=bool(case.get('crc')), with_hashes=sel,
                            bogus_hashes={i: 'hash-only' for i in sel} if bogus == 'hash-only' else sel if bogus else ())
        ok, p2 = call(Cell.one_from_boc, boc)
        if not ok:
            if bogus:
                continue
            return Fail('parse-reference-boc-raises/stored-hashes', f'{exc_sig(p2)}: {p2!r} boc={boc.hex()[:200]}')
        stack = [(root_r, p2)]
        seen = set()
        while stack:
            r, l = stack.pop()
            if id(r) in seen:
                continue
            seen.add(id(r))
            f = node_problem(r, l, 'parsed/stored-hashes-' + ('wrong-depths-true' if bogus == 'hash-only' else 'wrong' if bogus else 'genuine'))
            if f:
                return f
            stack.extend(zip(r.refs, l.refs))
    # equality <=> hash equality over all pairs of nodes; dict/set collapse
    hs = [c.H(0) for c in cells]
    m = min(n, 12)
    idxs = list(range(n - m, n))
    for a in idxs:
        for b in idxs:
            ok, eq = call(lambda: lib[a] == lib[b])
            if not ok:
                return Fail('equality/raises', repr(eq))
            if bool(eq) != (hs[a] == hs[b]):
                return Fail('equality/not-iff-hash-equal', f'nodes {a},{b}: == gives {eq}, hashes equal: {hs[a] == hs[b]}')
            if hs[a] == hs[b] and hash(lib[a]) != hash(lib[b]):
                return Fail('equality/equal-cells-hash-differently', f'nodes {a},{b}')
    ok, sz = call(lambda: (len({lib[i] for i in idxs}), len({lib[i]: i for i in idxs})))
    if not ok:
        return Fail('equality/cells-unusable-as-keys', repr(sz))
    exp = len({hs[i] for i in idxs})
    if sz != (exp, exp):
        return Fail('equality/dict-collapse', f'set/dict sizes {sz}, distinct hashes {exp}')
    return None


def check_eq_levels(case):
    """== and hash() over cells of every level: an ordinary cell above a pruned branch, the pruned branch and the sub-tree it
    stands for, Merkle cells - equal exactly when the REPORTED hashes (.hash, the representation hash) are equal"""
    spec = list(case['spec'])
    t = case['t'] % len(spec)
    n0 = len(spec)
    remap = {t: n0}
    spec.append({'k': 'p', 'of': t, 'x': case['x']})
    for k in range(t + 1, n0):
        nd = spec[k]
        if nd['k'] == 'o' and any(i in remap for i in nd['r']):
            remap[k] = len(spec)
            spec.append({'k': 'o', 'b': nd['b'], 'r': [remap.get(i, i) for i in nd['r']]})
    cells = dag.build_ref(spec)
    ok, lib = call(dag.lib_from_ref, cells, 'builder')
    if not ok:
        return None                                   # constructing exotic cells is C02's business
    hs = [c.repr_hash() for c in cells]
    idxs = sorted(set(list(remap) + list(remap.values()) + list(range(max(0, n0 - 4), n0))))[-14:]
    for a in idxs:
        if lib[a].hash != hs[a]:
            return None                               # wrong hashes of exotic cells: C02
        for b in idxs:
            ok, eq = call(lambda: lib[a] == lib[b])
            if not ok:
                return Fail('equality/raises', repr(eq))
            what = 'pruned-twin' if remap.get(a) == b or remap.get(b) == a else 'other'
            if bool(eq) != (hs[a] == hs[b]):
                return Fail(f'equality/not-iff-hash-equal/level>0/{what}', f'nodes {a} ({spec[a]["k"]}, level mask {cells[a].mask()}) and {b} '
                            f'({spec[b]["k"]}, level mask {cells[b].mask()}): == gives {eq}, reported hashes equal: {hs[a] == hs[b]}')
            if hs[a] == hs[b] and hash(lib[a]) != hash(lib[b]):
                return Fail('equality/equal-cells-hash-differently/level>0', f'nodes {a},{b}')
    ok, sz = call(lambda: (len({lib[i] for i in idxs}), len({lib[i]: i for i in idxs})))
    if not ok:
        return Fail('equality/cells-unusable-as-keys', repr(sz))
    exp = len({hs[i] for i in idxs})
    if sz != (exp, exp):
        return Fail('equality/dict-collapse/level>0', f'set/dict sizes {sz}, distinct reported hashes {exp}')
    return None


def check_over_exotic(case):
    """ordinary LEVEL-0 cells whose children are Merkle proofs / updates over trees with pruned branches: their hash is still the
    standard one - d1 d2, data, the children's level-0 depths and level-0 hashes (which is where the level masks of the cells
    below come in: an ordinary cell under the Merkle cells with two pruned children of incomparable masks, ...)"""
    cells = dag.build_ref(case['spec'])
    for route in ('builder', 'tvm'):
        ok, lib = call(dag.lib_from_ref, cells, route)
        if not ok:
            return None                                   # constructing exotic cells is C02's business
        for k, (r, l) in enumerate(zip(cells, lib)):
            if case['spec'][k]['k'] == 'o' and r.mask() == 0 and any(c.special for c in r.refs):
                f = node_problem(r, l, f'{route}/ordinary-level-0-over-exotic-children')
                if f:
                    return Fail(f.signature, f'node {k}: {f.detail}')
    return None


def enum_over_exotic(tier):
    seed = 0
    for m1 in range(1, 8):
        for m2 in range(0, 8):
            seed += 1
            base = [{'k': 'P', 'm': m1, 's': '%08x' % seed, 'd': [1, 2, 3]}]
            base.append({'k': 'P', 'm': m2, 's': '%08x' % (seed + 500), 'd': [5]} if m2 else {'k': 'o', 'b': [9, 2, seed], 'r': []})
            x = {'k': 'o', 'b': [13, 2, seed], 'r': [0, 1]}
            # three Merkle proofs above x bring every mask down to 0; g sits on top
            yield {'spec': base + [x, {'k': 'mp', 'r': 2}, {'k': 'mp', 'r': 3}, {'k': 'mp', 'r': 4}, {'k': 'o', 'b': [21, 2, seed], 'r': [5]}]}
            # Merkle updates pairing x with a sibling, then proofs
            y = {'k': 'o', 'b': [7, 2, seed + 1], 'r': [1, 0, 1]}
            yield {'spec': base + [x, y, {'k': 'mu', 'r': [2, 3]}, {'k': 'mu', 'r': [4, 4]}, {'k': 'mp', 'r': 5},
                                   {'k': 'o', 'b': [1023, 2, seed], 'r': [6, 6]}, {'k': 'o', 'b': [0, 0, 0], 'r': [7, 6]}]}


def strat_over_exotic(tier):
    return st.fixed_dictionaries({'spec': dag.st_exotic_dag(max_nodes=14, max_len=64)})


def strat_eq_levels(tier):
    return st.fixed_dictionaries({'spec': dag.st_ord_dag(max_nodes=10, max_len=64), 't': st.integers(0, 9), 'x': st.integers(0, 2)})


def check_twins(case):
    """an ordinary cell that has the shape (bit length, reference count) of an exotic cell created earlier in the same process"""
    from pytoniq_core.boc.builder import Builder
    leafs = [rc.RCell('1011', []), rc.RCell('0', [])]
    kind = case['kind']
    if kind == 'library':
        ex = rc.library_ref(b'\x42' * 32)
    elif kind == 'mproof':
        ex = rc.merkle_proof(leafs[0])
    elif kind == 'mupdate':
        ex = rc.merkle_update(leafs[0], leafs[1])
    else:
        m = case['mask']
        n = bin(m).count('1')
        ex = rc.pruned_raw(m, [bytes([i + 1]) * 32 for i in range(n)], [i for i in range(n)])
    twin = rc.RCell(ex.bits, ex.refs, False)                       # same bits, same children, not exotic
    order = [ex, twin] if case['first'] == 'exotic' else [twin, ex]
    built = {}
    for r in order:
        ok, l = call(dag.lib_from_rcell, r, 'builder')
        if not ok:
            if r is twin:
                return Fail('construction-raises/ordinary-twin', f'{exc_sig(l)}: {l!r}')
            return None                                            # exotic cells are C02's business
        built[id(r)] = l
    f = node_problem(twin, built[id(twin)], f'ordinary-twin-of-{kind}/{case["first"]}-first')
    if f:
        return f
    boc = refboc.encode([twin])
    from pytoniq_core.boc.cell import Cell
    ok, p = call(Cell.one_from_boc, boc)
    if not ok:
        return Fail('parse-reference-boc-raises/ordinary-twin', f'{exc_sig(p)}: {p!r}')
    return node_problem(twin, p, f'ordinary-twin-of-{kind}/parsed')


def enum_twins(tier):
    for first in ('exotic', 'ordinary'):
        for kind in ('library', 'mproof', 'mupdate'):
            yield {'kind': kind, 'first': first}
        for m in range(1, 8):
            yield {'kind': 'pruned', 'mask': m, 'first': first}


def enum_all_lengths(tier):
    for n in range(1024):
        for fill in (0, 1, 2):
            for nrefs in range(5):
                spec = [{'k': 'o', 'b': [(n * 7 + 3) % 40, 2, n], 'r': []}, {'k': 'o', 'b': [5, 2, n + 1], 'r': [0]}]
                spec.append({'k': 'o', 'b': [n, fill, n * 5 + nrefs], 'r': [j % 2 for j in range(nrefs)]})
                yield {'spec': spec, 'route': ROUTES[(n + nrefs) % 2], 'crc': n % 2, 'idx': (n // 2) % 2}


def enum_chains(tier):
    # chains of depth 1000..1023 (and the doubling ladder of the same depth)
    for depth in (1000, 1021, 1022, 1023):
        for ladder in (False, True):
            spec = [{'k': 'o', 'b': [3, 2, depth], 'r': []}]
            for k in range(1, depth + 1):
                spec.append({'k': 'o', 'b': [k % 9, 2, k], 'r': [k - 1, k - 1] if ladder else [k - 1]})
            yield {'spec': spec, 'route': 'builder'}


def strat(tier):
    return st.fixed_dictionaries({'spec': dag.st_ord_dag(max_nodes=24 if tier == 'quick' else 60),
                                  'route': st.sampled_from(['builder', 'tvm', 'builder', 'tvm', 'plain']),
                                  'crc': st.booleans(), 'idx': st.booleans()})


def strat_plain(tier):
    return st.fixed_dictionaries({'spec': dag.st_ord_dag(max_nodes=6), 'route': st.sampled_from(['plain', 'plain-le', 'tvm-le'])})


def classify(case):
    spec = case['spec']
    root = spec[-1]
    n = root['b'][0] if isinstance(root['b'], list) else len(root['b'])
    yield f'rootlen%8={n % 8}'
    yield f'rootrefs={len(root["r"])}'
    yield 'route=' + case.get('route', 'builder')
    yield 'nodes=' + ('1' if len(spec) == 1 else '2-8' if len(spec) <= 8 else '9-32' if len(spec) <= 32 else '33+')
    shared = any(len(set(nd['r'])) < len(nd['r']) for nd in spec)
    yield 'same-child-twice' if shared else 'no-dup-ref'


def nt(case):
    for nd in case['spec']:
        n = nd['b'][0] if isinstance(nd['b'], list) else len(nd['b'])
        if nd['r'] or n % 8:
            return True
    return False


def check_other_process(case):
    """cells built and pickled in ANOTHER interpreter process (its own PYTHONHASHSEED, so str/bytes hash differently there), loaded
    here: however a cell was obtained, its hash and depth are the standard ones and it equals / collides with the cells of the same
    hash built here. Pickling itself is not promised: a child or a load that fails is not judged."""
    import json
    import pickle
    import subprocess
    import sys
    from harness.core import REPO, VERIF
    cells = dag.build_ref(case['spec'])
    prog = ('import sys, json, pickle; sys.path[:0] = [%r, %r]; from harness.gen import dag; '
            'cells = dag.build_ref(json.loads(sys.stdin.read())); lib = dag.lib_from_ref(cells, %r); '
            'sys.stdout.write(pickle.dumps(lib, protocol=%d).hex())' % (REPO, VERIF, case['route'], case['proto']))
    import os
    env = dict(os.environ, PYTHONHASHSEED=str(case['hashseed']))
    try:
        p = subprocess.run([sys.executable] + (['-O'] if sys.flags.optimize else []) + ['-c', prog], input=json.dumps(case['spec']),
                           capture_output=True, text=True, timeout=120, env=env)
        loaded = pickle.loads(bytes.fromhex(p.stdout.strip()))
    except Exception:
        return None
    ok, lib = call(dag.lib_from_ref, cells, 'builder')
    if not ok or not isinstance(loaded, list) or len(loaded) != len(lib):
        return None
    for r, l, fresh in zip(cells, loaded, lib):
        f = node_problem(r, l, 'unpickled-from-another-process')
        if f:
            return f
        ok, rel = call(lambda: (l == fresh, fresh == l, hash(l) == hash(fresh), {l: 1}.get(fresh), {fresh: 1}.get(l), len({l, fresh}),
                                l.copy() == fresh, hash(l.copy()) == hash(fresh)))
        if not ok:
            return Fail('equality/raises/unpickled-from-another-process', repr(rel))
        if rel != (True, True, True, 1, 1, 1, True, True):
            return Fail('equality/unpickled-cell-does-not-collide-with-an-equal-cell-built-here',
                        f'(==, ==, hash equal, dict lookups, set size, copy ==, copy hash) = {rel} for a cell pickled under PYTHONHASHSEED={case["hashseed"]}')
    return None


def enum_other_process(tier):
    spec = [{'k': 'o', 'b': [13, 2, 1], 'r': []}, {'k': 'o', 'b': [64, 2, 2], 'r': [0]}, {'k': 'o', 'b': [0, 0, 0], 'r': [0, 1, 1]},
            {'k': 'o', 'b': [1023, 2, 3], 'r': [2, 1, 0, 2]}]
    for hs in (1, 2, 12345):
        for route, proto in (('builder', 2), ('tvm', pickle_default()), ('plain', 0)):
            if tier == 'quick' and (hs, route) not in ((1, 'builder'), (2, 'tvm'), (12345, 'plain'), (2, 'builder')):
                continue
            yield {'spec': spec, 'hashseed': hs, 'route': route, 'proto': proto}


def pickle_default():
    import pickle
    return pickle.DEFAULT_PROTOCOL


SUBCHECKS = [
    Sub('all-lengths-x-fills-x-refs', check, enum=enum_all_lengths, classify=classify, nontrivial=nt, shards=(16, 16),
        exhaustive=True, note='15 360 cells: every bit length 0..1023 x 3 fills x 0..4 refs'),
    Sub('exotic-shape-twins', check_twins, enum=enum_twins, shards=(2, 2), exhaustive=True,
        note='ordinary cells with exactly the bit length and reference count of library / Merkle proof / Merkle update / pruned '
             '(masks 1..7) cells, created after and before the exotic cell of that shape in one process'),
    Sub('deep-chains', check, enum=enum_chains, classify=classify, nontrivial=nt, shards=(8, 8), case_cpu_s=120,
        note='chains and doubling ladders of depth 1000..1023'),
    Sub('dags', check, strategy=strat, classify=classify, nontrivial=nt, n=(2000, 60000), shards=(16, 32)),
    Sub('ordinary-over-merkle-over-pruned', check_over_exotic, enum=enum_over_exotic, shards=(4, 4), exhaustive=True,
        classify=lambda c: ['kinds=' + ''.join(sorted({n['k'] for n in c['spec']}))], nontrivial=lambda c: True,
        note='level-0 ordinary cells on top of 3 Merkle proofs / 2 Merkle updates + 1 proof over an ordinary cell whose two pruned '
             'children carry every pair of masks 1..7 x 0..7'),
    Sub('ordinary-over-exotic-random', check_over_exotic, strategy=strat_over_exotic, n=(400, 10000), shards=(4, 16),
        classify=lambda c: ['nodes=%d' % len(c['spec'])], nontrivial=lambda c: True),
    Sub('equality-across-levels', check_eq_levels, strategy=strat_eq_levels, n=(600, 10000), shards=(4, 16),
        classify=lambda c: ['nodes=%d' % len(c['spec'])], nontrivial=lambda c: True,
        note='a DAG, the pruned branch of one of its nodes and the clones of that node\'s ancestors over the pruned branch'),
    Sub('pickled-in-another-process', check_other_process, enum=enum_other_process, shards=(4, 8), case_cpu_s=120,
        classify=lambda c: ['hashseed=%s' % c['hashseed'], 'route=' + c['route']], nontrivial=lambda c: True,
        note='cells pickled by a child interpreter with another PYTHONHASHSEED and loaded here'),
    Sub('plain-bitarray-route', check, strategy=strat_plain, classify=classify, nontrivial=nt, n=(600, 10000), shards=(4, 16)),
]

# the same generated cases, several at a time, checked by threads that run at the same time (core.run_overlapping): per-call state
# kept in a place two calls share shows only there
SUBCHECKS.append(__import__('harness.core', fromlist=['overlapped']).overlapped(next(s for s in SUBCHECKS if s.name == 'dags'), k=3, n=(40, 1500)))
