"""C06 — typed Builder stores and Slice loads are mutually inverse and bit-exact.

A case is ``{'ops': [op, ...]}``: a sequence of typed store operations that fits one cell (<= 1023 bits, <= 4 refs),
constructed against a running capacity model.  For every case

  store phase   every store_X is called on ONE Builder in order.  After each call the bits appended must be exactly the
                TL-B string written by harness/ref/refbits.py for that value, earlier bits must be untouched and the
                references appended must be the expected ones.  (snake: the bytes along the reference chain must be the
                value; TEP-64 SnakeData does not fix where the chain is cut, so the cut is NOT asserted.)
  bit-exact     Builder.end_cell().bits.to01() == concatenation of the reference strings.
  load phase    cell.begin_parse(); for every op in order: preload_X (where the API has one) returns the stored value
                and leaves remaining bits / refs / content unchanged; load_X returns the stored value and consumes
                exactly the TL-B size of the value; at the end remaining_bits == 0 and remaining_refs == 0.
                Addresses are compared on workchain, account id AND anycast (the library's == ignores anycast).

Kinds of USE beyond "one value, stored once, read once" that a case may contain (all as plain data in the case):

  input forms   store_bits is handed the same bit sequence as str / list / tuple / list of bool / bitarray and frozenbitarray with a
                big-endian AND a little-endian buffer / TvmBitarray; store_bytes gets bytes / bytearray / memoryview.  The bits
                written must be the SEQUENCE x[0], x[1], ... whatever the buffer layout (grid-bits-forms: every form x every
                length 0..40 and word edges x prefix lengths 0,1,3,7,8,9,15,16,24 - the aligned and the misaligned ones).
  look          a 'look' op = the caller prints / logs what it holds at that point: the builder and the cells stored so far on the
                store side, the slice and the value just peeked on the load side (harness.core.look / describe: str, repr, format,
                f-string, %s, bool).  Formatting is not a read: the content of builder / slice must be as before and the
                following stores / loads are checked as usual (grid-refs-described: every pattern of 4 optional references /
                dictionaries x every position of the look).
  coincidences  two or three values in ONE cell that are different but collide under a plausible lossy key - the kind of pair a
                memo / intern table / "normalised" lookup inside the library would confuse, and which random values never form:
                user-friendly address strings equal after case folding (constructed: crc16 is linear, the set of letters whose
                case is flipped is solved for over GF(2)), addresses with equal crc16 / equal text suffix / equal text prefix,
                the same account in two workchains, Address.__hash__ twins, the same address with / without / with another
                anycast, several spellings of ONE address (bounceable, non-bounceable, test-only, raw lower / upper hex);
                integers equal modulo 2^32 / 2^64 or equal at another width, -1 vs all-ones, texts equal after case folding.
                Every member is stored, peeked and loaded in the order A B A, so that whichever of the two the process met
                first, the other one shows the confusion (grid-coincidences).
  temporaries   the value handed to a store call is a temporary: it is dead before the next value is made, and the next one - same
                type, same size, other content - is made on the dead one's address (CPython hands a freed block to the next
                request of that size; when the first attempt lands elsewhere the misses are held and more are made; class
                runtime:address-of-dead-value-reused counts the hits, ~90 %).  What a memo keyed on id(value) plus a cheap
                fingerprint confuses: equally long values that differ in ONE byte / bit (in the first cell, at the cut, in a
                continuation cell, near the end) or only between a common head and tail of 16 / 64 bytes; the first content
                comes back at the end of the series.  One ordinary round trip per value (own builder, cell, slice - they die
                too), the value either held by the caller through its round or referenced by the call's argument alone.
                Snake byte strings / texts of 128..70 000 bytes at 4 fill levels of the first cell, bytes / bytearray /
                memoryview, strings, 63..256-bit integers (uint, int, var ints, coins), bit strings in every form, Address /
                ExternalAddress objects, address texts, referenced cells (grid-temporaries; a failure in a later round of
                a series whose first round passed is reported as after-dead-value/<clause>).

Attribution / search behind a failure: when a store raises or writes other bits, the Fail is recorded and the builder
is replaced by one holding the reference bits, so that the following stores and the loads are still examined and a
load-side Fail is really a load-side root cause.  This is sound for the statement: it demands store(v) == R(v)
(bit-exact) and load(store(v)) == v, hence load(R(v)) == v.  A case returns its first recorded Fail.

Deliberately NOT asserted: exception types; where store_snake_bytes cuts the chain; HashMap encoding (C09/C10 - the
'dict_hm' op only uses the optional-reference framing around a cell the library's HashMap produced); capacity / range
errors (C07); width 0 (store_uint(x, 0) / load_uint(0) raise by design of bitarray and are not generated);
load_string(0) for a non-final field ("the rest" by API definition: an empty string is generated only as last op);
python type of returned numbers (True == 1 accepted); identity of returned Cell objects (structure compared).

Development aid: env VERIF_IGNORE_SIG='sig1,sig2' makes the listed signatures count as passed (default: none).
Signatures listed for C06 in known_findings.json are read (never written) so that a case reports an unlisted Fail
in preference to a listed one - otherwise a listed store-side finding would mask the load-side findings behind it.
"""
import base64
import hashlib
import os

from hypothesis import strategies as st
from harness.core import Sub, Fail, call, exc_sig, describe, look
from harness.ref import refbits as R
from harness.ref import refaddr
from harness.ref.refcrc import crc16_xmodem

R.selftest()

RULE = ('case = sequence of typed store operations (uint w1..256, int w1..257, var_uint/var_int with length field 1..5 bits, '
        'coins, bit, bool, bits, bytes, string<=127 UTF-8 bytes, snake bytes 0..1000 (last), maybe_ref, dict (cell/None), '
        'dict_hm (library HashMap cell), slice (store_slice of a slice of which bits / references were already read, store_cell), a refused single-step store in between, '
        'look (builder / slice / peeked value printed in between), bits and bytes in every accepted input form (str, list, tuple, bools, big- and little-endian (frozen)bitarray, TvmBitarray; bytes, bytearray, memoryview), addr_none, addr_ext len 0..511, addr_std wc -128..127, addr_std_anycast depth 1..30) '
        'built against a running capacity model (<=1023 bits, <=4 refs) so every sequence fits; values biased to '
        'min,min+1,-1,0,1,max-1,max and top-bit-set; grids enumerate every width x boundary value, every var-int byte '
        'length x boundary value for every length-field width 1..5, every external-address length, every workchain, every '
        'anycast depth, every snake length, every bit-sequence form x length x alignment, every pattern of 4 optional refs/dicts x position of a print, '
        'designed coincidences stored A B A (case-folding / equal-crc / equal-prefix / equal-suffix address texts, hash twins, anycast twins, spellings of one address, ints equal mod 2^32/2^64), '
        'series of 3..7 equally long values of one kind (snake 128..70000 bytes, bytes, strings, big ints, bit strings, addresses, cells) differing in one byte / bit or between a common head and tail, '
        'one round trip each, every value dead before the next is made on its address (id() reuse; non-trivial there = >=2 distinct values of one kind). non-trivial = >=3 operations of >=2 kinds; distinct = distinct case')
ASSUMPTIONS = ['harness/ref/refbits.py (TL-B writer on str, self-tested on hand-computed vectors at import)',
               'Builder.store_bits(str)/store_ref/end_cell, Cell.bits.to01()/refs, Cell.begin_parse, '
               'Slice.remaining_bits/remaining_refs are the trusted observation base',
               'for dict_hm the cell produced by HashMap.serialize() is taken as given (C09 covers it)']

IGNORE = frozenset(x.strip() for x in os.environ.get('VERIF_IGNORE_SIG', '').split(',') if x.strip())


# --------------------------------------------------------------------------------------------------
# op model (pure, no library)

def _ceil8(n):
    return (n + 7) // 8


def kindclass(op, store_side=True):
    """input class used inside signatures (the way an address was stored is irrelevant to the load side)"""
    k = op['op']
    if k in ('var_uint', 'coins'):
        v = op['v']
        return k + (':top-bit' if v > 0 and v.bit_length() % 8 == 0 else '')
    if k == 'var_int':
        v = op['v']
        return k + (':top-bit' if R.var_int_len(v) > _ceil8(abs(v).bit_length()) else '')
    if k == 'string':
        return k + (':empty' if op['v'] == '' else '')
    if k in ('maybe_ref', 'dict'):
        return k + (':none' if op['v'] is None else ':cell')
    if k == 'dict_hm':
        return k + (':none' if not op['items'] else '')
    if k == 'addr_ext':
        return k + (':len0' if op['len'] == 0 else '')
    if k in ('addr_std', 'addr_std_anycast'):
        return k + ('' if not store_side or op.get('via', 'obj') == 'obj' else ':' + op['via'])
    if k in ('bits', 'bytes'):
        return k + ((':' + op['form']) if store_side and op.get('form', 'str') not in ('str', 'bytes') else '')
    if k == 'slice':
        return 'slice' + ((':' + op['via']) if store_side else '') + (':all-refs-consumed' if op['pr'] and not op['r'] else '')
    return k


def enc_bits(op):
    """TL-B bit string of a non-snake op (references are handled by the caller)"""
    k = op['op']
    if k == 'uint':
        return R.uint(op['v'], op['w'])
    if k == 'int':
        return R.sint(op['v'], op['w'])
    if k == 'var_uint':
        return R.var_uint(op['v'], op['bl'])
    if k == 'var_int':
        return R.var_int(op['v'], op['bl'])
    if k == 'coins':
        return R.coins(op['v'])
    if k in ('bit', 'bool'):
        return R.bit(op['v'])
    if k in ('bits', 'slice'):
        assert R.is01(op['v'])
        return op['v']
    if k in ('refused', 'rebind', 'look'):
        return ''
    if k == 'bytes':
        return R.from_bytes(bytes.fromhex(op['v']))
    if k == 'string':
        return R.utf8(op['v'])
    if k in ('maybe_ref', 'dict'):
        return R.maybe(op['v'] is not None)
    if k == 'dict_hm':
        return R.maybe(bool(op['items']))
    if k == 'addr_none':
        return R.addr_none()
    if k == 'addr_ext':
        return R.addr_extern(op['v'], op['len'])
    if k == 'addr_std':
        return R.addr_std(op['wc'], bytes.fromhex(op['acc']))
    if k == 'addr_std_anycast':
        return R.addr_std(op['wc'], bytes.fromhex(op['acc']), (op['depth'], op['pfx']))
    raise AssertionError(f'unknown op {k}')


def n_refs(op):
    k = op['op']
    if k in ('maybe_ref', 'dict'):
        return 0 if op['v'] is None else 1
    if k == 'dict_hm':
        return 1 if op['items'] else 0
    if k == 'slice':
        return op['r']
    return 0


def _short(op):
    s = repr(op)
    return s if len(s) <= 300 else s[:300] + '…'


# --------------------------------------------------------------------------------------------------
# library-side helpers

def _mk_builder(bits, refs):
    from pytoniq_core.boc.builder import Builder
    b = Builder()
    b.store_bits(bits)
    for r in refs:
        b.store_ref(r)
    return b


def _build_cell(spec):
    return _mk_builder(spec['b'], [_build_cell(r) for r in spec['r']]).end_cell()


def _to01(x):
    f = getattr(x, 'to01', None)
    return f() if f is not None else None


def _cell_same(a, b, depth=0):
    """structural equality of two library cells (bits and references), independent of Cell.__eq__ / hashes"""
    if a is b:
        return True
    if a is None or b is None or depth > 64:
        return False
    ba, bb = _to01(getattr(a, 'bits', None)), _to01(getattr(b, 'bits', None))
    if ba is None or ba != bb:
        return False
    ra, rb = getattr(a, 'refs', None), getattr(b, 'refs', None)
    if ra is None or rb is None or len(ra) != len(rb):
        return False
    return all(_cell_same(x, y, depth + 1) for x, y in zip(ra, rb))


def _snake_walk(root_bits, new_refs):
    """bits along a snake chain starting with the bits appended to the current cell; None when it is not a chain"""
    if len(new_refs) > 1:
        return None
    out = [root_bits]
    c = new_refs[0] if new_refs else None
    n = 0
    while c is not None:
        n += 1
        if n > 4096 or len(c.refs) > 1:
            return None
        out.append(c.bits.to01())
        c = c.refs[0] if c.refs else None
    return ''.join(out)


def _snake_ref_chain(chunks):
    """library cells for chunks[1:], innermost first (trusted Builder.store_bits/store_ref)"""
    cell = None
    for ch in reversed(chunks[1:]):
        cell = _mk_builder(R.from_bytes(ch), [cell] if cell is not None else []).end_cell()
    return cell


def _hm_value_ser(src, dest):
    dest.store_uint(src, 32)


def _hm_value_de(s):
    return s.load_uint(32)


def _make_aux(op):
    """objects handed to the store call that must exist before it (cells); (aux, fail)"""
    k = op['op']
    if k in ('maybe_ref', 'dict'):
        return (None if op['v'] is None else _build_cell(op['v'])), None
    if k == 'dict_hm':
        if not op['items']:
            return None, None
        from pytoniq_core.boc.hashmap.hashmap import HashMap

        def build():
            hm = HashMap(op['kl'], value_serializer=_hm_value_ser)
            for key, val in op['items']:
                hm.set_int_key(key, val)
            return hm.serialize()
        ok, cell = call(build)
        if not ok or cell is None:
            return None, Fail(f'setup/dict_hm/hashmap-build-failed/{exc_sig(cell) if not ok else "None"}', _short(op))
        return cell, None
    if k == 'slice':
        # source cell = (bits already read) + (bits to be copied), (refs already read) + (refs to be copied)
        leaves = [_mk_builder(R.uint(0xA0 + i, 8) + '1' * i, []).end_cell() for i in range(op['pr'] + op['r'])]
        return (_mk_builder(op['pb'] + op['v'], leaves).end_cell(), leaves[op['pr']:]), None
    return None, None


def _mk_address(op):
    from pytoniq_core.boc.address import Address
    a = Address((op['wc'], bytes.fromhex(op['acc'])))
    if op['op'] == 'addr_std_anycast':
        a.set_anycast(op['depth'], op['pfx'])
    return a


BITS_FORMS = ('str', 'list', 'tuple', 'bools', 'ba-big', 'ba-little', 'frozen-big', 'frozen-little', 'tvm')
BYTES_FORMS = ('bytes', 'bytearray', 'memoryview')


def _bits_form(v, form):
    """the bit sequence v ('0'/'1' text) as one of the objects store_bits accepts; x[i] == int(v[i]) for each of them"""
    if form == 'str':
        return v
    if form == 'list':
        return [int(c) for c in v]
    if form == 'tuple':
        return tuple(int(c) for c in v)
    if form == 'bools':
        return [c == '1' for c in v]
    if form == 'tvm':
        from pytoniq_core.boc.tvm_bitarray import TvmBitarray
        t = TvmBitarray(1023)
        t.extend(v)
        return t
    from bitarray import bitarray, frozenbitarray
    kind, endian = form.split('-')
    x = (bitarray if kind == 'ba' else frozenbitarray)(v, endian=endian)
    assert x.to01() == v and len(x) == len(v) and all(x[i] == int(c) for i, c in enumerate(v))
    return x


def _text_means(text):
    """(workchain, account id) a textual address denotes: raw 'wc:hex' or the 36-byte base64 form with a valid crc16 (TEP-2)"""
    if ':' in text:
        wc, acc = text.split(':')
        return int(wc), bytes.fromhex(acc)
    raw = base64.b64decode(text.replace('-', '+').replace('_', '/'), validate=True)
    assert len(raw) == 36 and raw[0] in (0x11, 0x51, 0x91, 0xD1) and crc16_xmodem(raw[:34]) == int.from_bytes(raw[34:], 'big'), text
    return int.from_bytes(raw[1:2], 'big', signed=True), raw[2:34]


def _ascii(b):
    return bytes(32 + (x % 95) for x in b)


def _slice_cls():
    from pytoniq_core.boc.slice import Slice
    return Slice


def _store(b, op, aux, fresh=None):
    from pytoniq_core.boc.address import ExternalAddress
    k = op['op']
    if fresh is not None:           # the value object is supplied by the caller's history (check_temporaries)
        return _store_obj(b, op, fresh())
    if k == 'uint':
        return b.store_uint(op['v'], op['w'])
    if k == 'int':
        return b.store_int(op['v'], op['w'])
    if k == 'var_uint':
        return b.store_var_uint(op['v'], op['bl'])
    if k == 'var_int':
        return b.store_var_int(op['v'], op['bl'])
    if k == 'coins':
        return b.store_coins(op['v'])
    if k == 'bit':
        form = op.get('form', 'int')
        if form == 'bit_int':
            return b.store_bit_int(op['v'])
        if form == 'bool':
            return b.store_bit(bool(op['v']))
        if form == 'tvm':                       # store_bit(TvmBitarray): its first bit
            from pytoniq_core.boc.tvm_bitarray import TvmBitarray
            ba = TvmBitarray(1023)
            ba.extend(str(op['v']) + '01')
            return b.store_bit(ba)
        return b.store_bit(op['v'] if form == 'int' else str(op['v']))
    if k == 'bool':
        return b.store_bool(bool(op['v']))
    if k == 'bits':
        return b.store_bits(_bits_form(op['v'], op.get('form', 'str')))
    if k == 'bytes':
        data = bytes.fromhex(op['v'])
        form = op.get('form', 'bytes')
        return b.store_bytes(data if form == 'bytes' else bytearray(data) if form == 'bytearray' else memoryview(data))
    if k == 'string':
        return b.store_string(op['v'])
    if k == 'snake':
        how = op.get('as', 'bytes')
        if how == 'string-ascii':               # long texts: the stream bytes folded into 7-bit ASCII
            return b.store_snake_string(_ascii(bytes.fromhex(op['v'])).decode('ascii'))
        if how == 'string':
            return b.store_snake_string(bytes.fromhex(op['v']).decode('utf-8'))
        if how == 'string-prefix':              # need_prefix=True puts one zero byte in front (TEP-64 snake tag)
            return b.store_snake_string(bytes.fromhex(op['v'])[1:].decode('utf-8'), True)
        return b.store_snake_bytes(bytes.fromhex(op['v']))
    if k == 'maybe_ref':
        return b.store_maybe_ref(aux)
    if k in ('dict', 'dict_hm'):
        return b.store_dict(aux)
    if k == 'slice':
        src = aux[0]
        if op['via'] == 'store_cell':                 # pb == '' and pr == 0
            return b.store_cell(src)
        sl = src.begin_parse() if op['via'] != 'store_slice:from_cell' else _slice_cls().from_cell(src)
        if op['pb']:
            sl.load_bits(len(op['pb']))
        for _ in range(op['pr']):
            sl.load_ref()
        if op['via'] == 'store_slice:copy':
            sl = sl.copy()
        return b.store_slice(sl)
    if k == 'addr_none':
        return b.store_address(None)
    if k == 'addr_ext':
        if op.get('via', 'obj') == 'to_cell':
            return b.store_cell(ExternalAddress(op['v'], op['len']).to_cell())
        return b.store_address(ExternalAddress(op['v'], op['len']))
    if k in ('addr_std', 'addr_std_anycast'):
        via = op.get('via', 'obj')
        if via == 'str':
            return b.store_address(f"{op['wc']}:{op['acc']}")
        if via == 'text':                   # a given spelling; what it denotes is decoded by the harness, not by the library
            assert _text_means(op['text']) == (op['wc'], bytes.fromhex(op['acc'])), 'generator: text does not denote the address'
            return b.store_address(op['text'])
        if via == 'friendly':               # the user-friendly text form (TEP-2), written by the harness's own renderer
            from harness.ref import refaddr
            a0 = bytes.fromhex(op['acc'])
            return b.store_address(refaddr.friendly(op['wc'], a0, bool(a0[0] & 1), bool(a0[1] & 1), bool(a0[2] & 1)))
        if via == 'to_cell':
            return b.store_cell(_mk_address(op).to_cell())
        return b.store_address(_mk_address(op))
    raise AssertionError(k)


def _addr_std_same(x, op):
    if getattr(x, 'wc', None) != op['wc'] or getattr(x, 'hash_part', None) != bytes.fromhex(op['acc']):
        return False
    any_ = getattr(x, 'anycast', None)
    if op['op'] == 'addr_std':
        return any_ is None
    return any_ is not None and getattr(any_, 'depth', None) == op['depth'] and getattr(any_, 'rewrite_pfx', None) == op['pfx']


def _addr_ext_same(x, op):
    if x is None or hasattr(x, 'hash_part') or getattr(x, 'len', None) != op['len']:
        return False
    ea = getattr(x, 'external_address', 'missing')
    if op['len'] == 0:
        return ea in (0, None)      # a zero-bit string has no numeric content; either spelling is "the same value"
    return ea == op['v']


def _accessors(s, op, aux):
    """(preload or None, load, same(value)) for one op on slice s"""
    k = op['op']
    if k == 'uint':
        return (lambda: s.preload_uint(op['w'])), (lambda: s.load_uint(op['w'])), (lambda x: x == op['v'])
    if k == 'int':
        return (lambda: s.preload_int(op['w'])), (lambda: s.load_int(op['w'])), (lambda x: x == op['v'])
    if k == 'var_uint':
        return (lambda: s.preload_var_uint(op['bl'])), (lambda: s.load_var_uint(op['bl'])), (lambda x: x == op['v'])
    if k == 'var_int':
        return (lambda: s.preload_var_int(op['bl'])), (lambda: s.load_var_int(op['bl'])), (lambda x: x == op['v'])
    if k == 'coins':
        return s.preload_coins, s.load_coins, (lambda x: x == op['v'])
    if k == 'bit':
        return s.preload_bit, s.load_bit, (lambda x: x == op['v'])
    if k == 'bool':
        return s.preload_bool, s.load_bool, (lambda x: x == bool(op['v']))
    if k == 'bits':
        n = len(op['v'])
        return (lambda: s.preload_bits(n)), (lambda: s.load_bits(n)), (lambda x: _to01(x) == op['v'])
    if k == 'bytes':
        data = bytes.fromhex(op['v'])
        return (lambda: s.preload_bytes(len(data))), (lambda: s.load_bytes(len(data))), \
               (lambda x: isinstance(x, (bytes, bytearray)) and bytes(x) == data)
    if k == 'string':
        n = len(op['v'].encode('utf-8'))
        if n and s.remaining_bits == 8 * n and len(op['v']) % 2:
            # the text is all that remains: read with the default length ("the rest") - the same text, nothing left unread
            return (lambda: s.preload_string()), (lambda: s.load_string()), (lambda x: x == op['v'])
        return (lambda: s.preload_string(n)), (lambda: s.load_string(n)), (lambda x: x == op['v'])
    if k == 'snake':
        data = bytes.fromhex(op['v'])
        if op.get('as') == 'string-ascii':
            data = _ascii(data)
        if op.get('as', 'bytes') != 'bytes':
            return None, s.load_snake_string, (lambda x: isinstance(x, str) and x == data.decode('utf-8'))
        return None, s.load_snake_bytes, (lambda x: isinstance(x, (bytes, bytearray)) and bytes(x) == data)
    if k in ('maybe_ref', 'dict'):
        if op['v'] is None:
            return s.preload_maybe_ref, s.load_maybe_ref, (lambda x: x is None)
        return s.preload_maybe_ref, s.load_maybe_ref, (lambda x: x is not None and _cell_same(x, aux))
    if k == 'dict_hm':
        exp = {key: val for key, val in op['items']} or None
        return (lambda: s.preload_dict(op['kl'], value_deserializer=_hm_value_de)), \
               (lambda: s.load_dict(op['kl'], value_deserializer=_hm_value_de)), (lambda x: x == exp)
    if k == 'slice':
        n, r = len(op['v']), op['r']
        # peek: preload_bits and preload_ref(i) return what the reads below return and consume nothing
        return (lambda: (s.preload_bits(n), [s.preload_ref(i) for i in range(r)])), (lambda: (s.load_bits(n), [s.load_ref() for _ in range(r)])), \
            (lambda x: _to01(x[0]) == op['v'] and len(x[1]) == r and all(_cell_same(a, c) for a, c in zip(x[1], aux[1])))
    if k == 'addr_none':
        return s.preload_address, s.load_address, (lambda x: x is None)
    if k == 'addr_ext':
        return s.preload_address, s.load_address, (lambda x: _addr_ext_same(x, op))
    if k in ('addr_std', 'addr_std_anycast'):
        return s.preload_address, s.load_address, (lambda x: x is not None and _addr_std_same(x, op))
    raise AssertionError(k)


def _show(x):
    any_ = getattr(x, 'anycast', 'n/a')
    r = repr(x)
    if any_ != 'n/a':
        r += f' [wc={getattr(x, "wc", None)} anycast={any_}]'
    if hasattr(x, 'external_address'):
        r += f' [len={getattr(x, "len", None)} value={getattr(x, "external_address", None)}]'
    return r if len(r) <= 300 else r[:300] + '…'


# --------------------------------------------------------------------------------------------------
# the check

def _refused(b, op, exp_bits, exp_refs):
    """a single-step store the builder has to refuse in its present state (one bit / one reference too many, a value outside
    the width).  Whatever it raises: the values stored successfully before and after it are what is read back, so a refused
    single-step store leaves bits and references as they were.  (Multi-step stores - var ints, addresses, snake, maybe_ref -
    are not used here: the library writes them field by field and the statement does not promise they are undone.)"""
    left, rleft = 1023 - len(exp_bits), 4 - len(exp_refs)
    what = op['what']
    leaf = _mk_builder('1011', []).end_cell()
    if what == 'cell-bits' or what == 'slice-bits':
        if left + 1 > 1023:
            return None
        src = _mk_builder('1' * (left + 1), [leaf] * min(1, rleft)).end_cell()
        f = (lambda: b.store_cell(src)) if what == 'cell-bits' else (lambda: b.store_slice(src.begin_parse()))
    elif what == 'cell-refs' or what == 'slice-refs':
        if rleft == 4:
            return None
        src = _mk_builder('01' if left >= 2 else '', [leaf] * (rleft + 1)).end_cell()
        f = (lambda: b.store_cell(src)) if what == 'cell-refs' else (lambda: b.store_slice(src.begin_parse()))
    elif what == 'ref':
        if rleft:
            return None
        f = lambda: b.store_ref(leaf)
    elif what == 'uint-range':
        w = max(1, min(left, op['w']))
        if left == 0:
            return None
        f = lambda: b.store_uint(1 << w, w)
    elif what == 'int-range':
        w = max(1, min(left, op['w']))
        if left == 0:
            return None
        f = lambda: b.store_int(1 << (w - 1), w)
    elif what == 'uint-room':
        if left + 1 > 256:
            return None
        f = lambda: b.store_uint(1, left + 1)
    elif what == 'bits-room':
        f = lambda: b.store_bits('1' * (left + 1))
    elif what == 'bytes-room':
        f = lambda: b.store_bytes(b'\xff' * (left // 8 + 1))
    else:
        raise AssertionError(what)
    ok, e = call(f)
    if ok:
        return None                         # accepting it is C07's business; the content is re-synchronised by the caller
    got, got_refs = b.bits.to01(), list(b.refs)
    if got != exp_bits or len(got_refs) != len(exp_refs) or not all(x is y or _cell_same(x, y) for x, y in zip(got_refs, exp_refs)):
        return Fail(f'store/after-refused-{what}/builder-content-altered',
                    f'a refused single-step store left the builder with {len(got)} bits / {len(got_refs)} refs instead of '
                    f'{len(exp_bits)} / {len(exp_refs)}: what is read back is no longer what was stored')
    return None


def _run(ops, fails, fresh=None):
    """fresh: {op index: zero-argument callable returning the value object handed to that store} (check_temporaries)"""
    from pytoniq_core.boc.builder import Builder
    b = Builder()
    exp_bits = ''            # reference bit string of everything stored so far
    exp_refs = []            # cells expected in b.refs so far
    spans = []               # per op: (bit offset after, ref offset after, aux)

    # ---- store phase
    for i, op in enumerate(ops):
        k, kc = op['op'], kindclass(op)
        aux, f = _make_aux(op)
        if f is not None:
            fails.append(f)
            return
        if k == 'rebind':
            # the caller swaps the builder's containers for equal ones through the public setters (snapshot / roll-back idiom):
            # every later store goes into what the builder holds NOW
            ok, e = call(lambda: (setattr(b, 'bits', b.bits.copy()) if op['what'] != 'refs' else None,
                                  setattr(b, 'refs', list(b.refs)) if op['what'] != 'bits' else None))
            if not ok:
                fails.append(Fail(f'rebind/raises/{exc_sig(e)}', repr(e)))
            spans.append((len(exp_bits), len(exp_refs), None))
            continue
        if k == 'look':
            # the caller prints what it holds: formatting the builder / the cells it stored is not a store
            _fmt(op['how'], b, *exp_refs)
            got, got_refs = b.bits.to01(), list(b.refs)
            if got != exp_bits or len(got_refs) != len(exp_refs) or not all(x is y or _cell_same(x, y) for x, y in zip(got_refs, exp_refs)):
                fails.append(Fail(f'look/builder/content-altered-by-formatting',
                                  f'op#{i} {op}: {len(got)} bits / {len(got_refs)} refs afterwards, {len(exp_bits)} / {len(exp_refs)} stored'))
                b = _mk_builder(exp_bits, exp_refs)
            spans.append((len(exp_bits), len(exp_refs), None))
            continue
        if k == 'refused':
            f = _refused(b, op, exp_bits, exp_refs)
            if f is not None:
                fails.append(f)
                b = _mk_builder(exp_bits, exp_refs)
            spans.append((len(exp_bits), len(exp_refs), None))
            continue
        if k == 'snake':
            data = bytes.fromhex(op['v'])
            if op.get('as') == 'string-ascii':
                data = _ascii(data)
            want_bits, want_refs = None, None
        elif k == 'slice':
            want_bits, want_refs = enc_bits(op), list(aux[1])
        else:
            want_bits = enc_bits(op)
            want_refs = [aux] if n_refs(op) else []
        ok, e = call(_store, b, op, aux, fresh.get(i) if fresh else None)
        bad = None
        if not ok:
            bad = Fail(f'store/{kc}/raises/{exc_sig(e)}', f'op#{i} {_short(op)}: {e!r}')
        else:
            got = b.bits.to01()
            got_refs = list(b.refs)
            tail, new_refs = got[len(exp_bits):], got_refs[len(exp_refs):]
            if got[:len(exp_bits)] != exp_bits or not (len(got_refs) >= len(exp_refs) and
                                                      all(x is y or _cell_same(x, y) for x, y in zip(got_refs, exp_refs))):
                bad = Fail(f'store/{kc}/earlier-content-altered', f'op#{i} {_short(op)}')
            elif k == 'snake':
                chain = _snake_walk(tail, new_refs)
                if chain is None:
                    bad = Fail('store/snake/not-a-single-reference-chain', f'op#{i} len={len(data)} new refs={len(new_refs)}')
                elif chain != R.from_bytes(data):
                    bad = Fail('store/snake/chain-bytes-differ',
                               f'op#{i} len={len(data)} at bit {len(exp_bits)}: chain holds {len(chain)} bits, '
                               f'first difference at bit {_first_diff(chain, R.from_bytes(data))}')
                else:
                    want_bits, want_refs = tail, new_refs         # any cut of the chain is valid SnakeData
            elif tail != want_bits:
                bad = Fail(f'store/{kc}/bits-differ',
                           f'op#{i} {_short(op)}: wrote {_clip(tail)} expected {_clip(want_bits)} '
                           f'(first difference at bit {_first_diff(tail, want_bits)} of the field)')
            elif len(new_refs) != len(want_refs) or not all(_cell_same(x, y) for x, y in zip(new_refs, want_refs)):
                bad = Fail(f'store/{kc}/refs-differ', f'op#{i} {_short(op)}: {len(new_refs)} new refs, expected {len(want_refs)}')
        if bad is not None:
            fails.append(bad)
            if k == 'snake':
                chunks = R.snake_chunks(data, (1023 - len(exp_bits)) // 8)
                want_bits = R.from_bytes(chunks[0])
                want_refs = [_snake_ref_chain(chunks)] if len(chunks) > 1 else []
            b = _mk_builder(exp_bits + want_bits, exp_refs + want_refs)
        exp_bits += want_bits
        exp_refs = exp_refs + want_refs
        spans.append((len(exp_bits), len(exp_refs), aux))

    # every other case reads through a slice taken from the builder itself (Builder.to_slice) while the builder keeps
    # being used afterwards: what was stored before the snapshot, and nothing else, must be read back
    alt = None
    if len(ops) % 2 == 1 and not fails:
        ok, alt = call(b.to_slice)
        if not ok:
            fails.append(Fail(f'to_slice/raises/{exc_sig(alt)}', repr(alt)))
            alt = None
    ok, cell = call(b.end_cell)
    if not ok:
        fails.append(Fail(f'end_cell/raises/{exc_sig(cell)}', repr(cell)))
        return
    if cell.bits.to01() != exp_bits or len(cell.refs) != len(exp_refs):
        fails.append(Fail('end_cell/bits-differ-from-builder', f'{_clip(cell.bits.to01())} vs {_clip(exp_bits)}'))
        cell = _mk_builder(exp_bits, exp_refs).end_cell()
    if alt is not None:
        if len(exp_bits) < 1023:
            call(lambda: b.store_bits('1'))
        if len(exp_refs) < 4:
            call(lambda: b.store_ref(cell))

    # ---- load phase
    s = alt if alt is not None else cell.begin_parse()
    off, roff = 0, 0
    show = None
    for i, op in enumerate(ops):
        if op['op'] == 'look':
            # print(slice) / a log line between two reads is not a read: what is left to read is what was left before
            snap = (s.remaining_bits, s.remaining_refs, s.bits.to01())
            _fmt(op['how'], s)
            now = (s.remaining_bits, s.remaining_refs, s.bits.to01())
            if now != snap or not call(lambda: all(_cell_same(s.preload_ref(j), exp_refs[roff + j]) for j in range(snap[1]))) == (True, True):
                fails.append(Fail('look/slice/unread-part-altered-by-formatting',
                                  f'op#{i} {op}: remaining bits/refs {snap[0]}/{snap[1]} -> {now[0]}/{now[1]} (or other references)'))
                s = _mk_builder(exp_bits[off:], exp_refs[roff:]).end_cell().begin_parse()
            show = op['how']
            continue
        if op['op'] in ('refused', 'rebind'):
            continue
        kc = kindclass(op, store_side=False)
        end, rend, aux = spans[i]
        pre, load, same = _accessors(s, op, aux)
        if pre is not None:
            snap = (s.remaining_bits, s.remaining_refs, s.bits.to01())
            ok, pv = call(pre)
            if not ok:
                fails.append(Fail(f'preload/{kc}/raises/{exc_sig(pv)}', f'op#{i} {_short(op)}: {pv!r}'))
            elif not same(pv):
                fails.append(Fail(f'preload/{kc}/value-differs', f'op#{i} {_short(op)}: peek returned {_show(pv)}'))
            elif show is not None:
                _fmt(show, pv)              # the peeked value is printed before the consuming read
                if not same(pv):
                    fails.append(Fail(f'look/{kc}/peeked-value-altered-by-formatting', f'op#{i} {_short(op)}: now {_show(pv)}'))
            if (s.remaining_bits, s.remaining_refs, s.bits.to01()) != snap:
                fails.append(Fail(f'preload/{kc}/consumes-or-alters-slice',
                                  f'op#{i} {_short(op)}: remaining bits/refs {snap[0]}/{snap[1]} -> {s.remaining_bits}/{s.remaining_refs}'))
                s = _mk_builder(exp_bits[off:], exp_refs[roff:]).end_cell().begin_parse()
                pre, load, same = _accessors(s, op, aux)
        ok, lv = call(load)
        resync = False
        if not ok:
            fails.append(Fail(f'load/{kc}/raises/{exc_sig(lv)}', f'op#{i} {_short(op)}: {lv!r}'))
            resync = True
        else:
            if not same(lv):
                fails.append(Fail(f'load/{kc}/value-differs', f'op#{i} {_short(op)}: read returned {_show(lv)}'))
            want = (len(exp_bits) - end, len(exp_refs) - rend)
            if (s.remaining_bits, s.remaining_refs) != want:
                fails.append(Fail(f'load/{kc}/consumed-wrong-amount',
                                  f'op#{i} {_short(op)}: remaining bits/refs {s.remaining_bits}/{s.remaining_refs}, expected {want[0]}/{want[1]}'))
                resync = True
        off, roff = end, rend
        show = None
        if resync:
            s = _mk_builder(exp_bits[off:], exp_refs[roff:]).end_cell().begin_parse()
    if s.remaining_bits != 0 or s.remaining_refs != 0:
        fails.append(Fail('end/not-fully-consumed', f'{s.remaining_bits} bits, {s.remaining_refs} refs left'))


def _fmt(how, *objs):
    """what a caller's print / logging does with objects it holds; results and exceptions are nobody's property here"""
    if how == 'describe':
        describe(*objs)
    else:
        for o in objs:
            for _ in range(2 if how == 'look2' else 1):
                look(o)


def _first_diff(a, b):
    for i, (x, y) in enumerate(zip(a, b)):
        if x != y:
            return i
    return min(len(a), len(b))


def _clip(s, n=96):
    return f'{s[:n]}{"…" if len(s) > n else ""}({len(s)} bits)'


def check(case):
    """first recorded Fail that is neither ignored (env) nor a listed known finding; a case whose only failures are
    known findings returns the first of them, so that the core counts it as KNOWN-FINDING.  (Returning a known Fail
    while an unknown one sits behind it in the same case would hide the unknown one for good: a zero-length external
    address fails on the store side, the load side and the peek side, always in that order.)"""
    fails = []
    _run(case['ops'], fails)
    fails = [f for f in fails if f.signature not in IGNORE]
    known = _known()
    for f in fails:
        if f.signature not in known:
            return f
    return fails[0] if fails else None


_KNOWN = None


def _known():
    global _KNOWN
    if _KNOWN is None:          # configuration, read once per process; never written here
        from harness.core import load_known
        _KNOWN = frozenset(load_known('C06'))
    return _KNOWN


# --------------------------------------------------------------------------------------------------
# classification

def _layout(ops):
    """(bits used before each op, total bits) with the greedy snake layout"""
    used, before = 0, []
    for op in ops:
        before.append(used)
        if op['op'] == 'snake':
            used += 8 * min(len(op['v']) // 2, (1023 - used) // 8)
        else:
            used += len(enc_bits(op))
    return before, used


def classify(case):
    ops = case['ops']
    before, total = _layout(ops)
    seen = set()
    refs_used = sum(n_refs(op) for op in ops)
    for pos, (op, used) in enumerate(zip(ops, before)):
        k = op['op']
        labels = ['kind=' + k]
        if k in ('var_uint', 'var_int', 'coins'):
            v = op['v']
            ln = R.var_int_len(v) if k == 'var_int' else R.var_uint_len(v)
            bl = op.get('bl', 4)
            labels.append(f'{k}:lenfield={bl}')
            labels.append(f'{k}:len=' + ('0' if ln == 0 else 'max' if ln == (1 << bl) - 1 else '1' if ln == 1 else 'mid'))
            if kindclass(op).endswith(':top-bit'):
                labels.append(f'{k}:top-bit-set-at-minimal-length' + ('' if v > 0 else '(negative)'))
            if k == 'var_int' and v < 0 and v == -(1 << (8 * ln - 1)):
                labels.append('var_int:negative-power-boundary')
        elif k in ('uint', 'int'):
            w = op['w']
            labels.append(f'{k}:w=' + ('1' if w == 1 else 'max' if w == (256 if k == 'uint' else 257) else
                                       '8k' if w % 8 == 0 else 'other'))
        elif k == 'addr_ext':
            labels.append('addr_ext:len=' + ('0' if op['len'] == 0 else '511' if op['len'] == 511 else '1..510'))
            labels.append('addr:via=' + op.get('via', 'obj'))
        elif k in ('addr_std', 'addr_std_anycast'):
            labels.append('addr:via=' + op.get('via', 'obj'))
            if k == 'addr_std_anycast':
                labels.append('anycast:depth=' + ('1' if op['depth'] == 1 else '30' if op['depth'] == 30 else '2..29'))
            if op['wc'] < 0:
                labels.append('addr_std:neg-wc')
        elif k == 'snake':
            n, avail = len(op['v']) // 2, (1023 - used) // 8
            cells = 1 if n <= avail else 1 + (n - avail + 126) // 127
            labels.append('snake:' + ('len=0' if n == 0 else '1-cell' if cells == 1 else '2-cells' if cells == 2 else '>=3-cells'))
            labels.append('snake:as=' + op.get('as', 'bytes'))
            refs_used += 1 if cells > 1 else 0
            if avail == 0 and n:
                labels.append('snake:root-full')
        elif k == 'string':
            labels.append('string:' + ('empty-last' if op['v'] == '' else 'ascii' if op['v'].isascii() else 'multibyte'))
        elif k == 'bit':
            labels.append('bit:form=' + op.get('form', 'int'))
        elif k in ('maybe_ref', 'dict', 'dict_hm', 'slice'):
            labels.append(kindclass(op))
        elif k == 'refused':
            labels.append('refused:' + op['what'])
        elif k == 'rebind':
            labels.append('rebind:' + op['what'])
        elif k == 'look':
            labels.append('look:' + op['how'])
            labels.append('look:refs-read=' + str(min(2, sum(n_refs(o) for o in ops[:pos]))) +
                          ',unread=' + str(min(2, sum(n_refs(o) for o in ops[pos:]))))
        elif k == 'bits':
            labels.append('bits:form=' + op.get('form', 'str'))
            if op.get('form', 'str') != 'str':
                labels.append('bits:form!=str,' + ('len%8=0' if len(op['v']) % 8 == 0 else 'len%8!=0') + ',' + ('at%8=0' if used % 8 == 0 else 'at%8!=0'))
        elif k == 'bytes':
            labels.append('bytes:form=' + op.get('form', 'bytes'))
        for lb in labels:
            if lb not in seen:
                seen.add(lb)
                yield lb
    if total == 1023:
        yield 'cell:full-1023-bits'
    if refs_used == 4:
        yield 'cell:4-refs'
    if case.get('twin'):
        yield 'twin=' + case['twin']
    n = len(ops)
    yield 'ops=' + ('1-2' if n < 3 else '3-5' if n <= 5 else '6-10' if n <= 10 else '>10')


def nontrivial(case):
    ops = case['ops']
    return len(ops) >= 3 and len({op['op'] for op in ops}) >= 2


# --------------------------------------------------------------------------------------------------
# generated sequences (capacity model: constructed, never filtered)

_W_EDGE = [1, 2, 7, 8, 9, 15, 16, 17, 31, 32, 33, 63, 64, 65, 127, 128, 129, 255, 256, 257]


def _uint_boundary(w):
    m = (1 << w) - 1
    return sorted({x for x in (0, 1, 2, m, m - 1, 1 << (w - 1), (1 << (w - 1)) - 1, m // 3) if 0 <= x <= m})


def _int_boundary(w):
    lo, hi = -(1 << (w - 1)), (1 << (w - 1)) - 1
    return sorted({x for x in (lo, lo + 1, -2, -1, 0, 1, hi - 1, hi, lo // 2, hi // 2 + 1, hi // 3) if lo <= x <= hi})


def _var_u_range(ln):
    return (0, 0) if ln == 0 else (1 << (8 * (ln - 1)), (1 << (8 * ln)) - 1)


def _var_s_range(ln, negative):
    """values whose minimal two's complement byte length is exactly ln (ln >= 1)"""
    if not negative:
        return (1 if ln == 1 else 1 << (8 * (ln - 1) - 1)), (1 << (8 * ln - 1)) - 1
    return -(1 << (8 * ln - 1)), (-1 if ln == 1 else -(1 << (8 * (ln - 1) - 1)) - 1)


def _width(draw, cap):
    edges = [w for w in _W_EDGE if w <= cap]
    return draw(st.one_of(st.sampled_from(edges), st.integers(1, cap)))


def _len_class(draw, lmax):
    if lmax == 0:
        return 0
    return draw(st.one_of(st.sampled_from(sorted({0, 1, min(2, lmax), lmax})), st.integers(0, lmax)))


def _draw_var_u(draw, ln):
    if ln == 0:
        return 0
    lo, hi = _var_u_range(ln)
    top = 1 << (8 * ln - 1)
    return draw(st.one_of(st.sampled_from(sorted({lo, min(lo + 1, hi), hi - 1, hi, top, top - 1 if top - 1 >= lo else lo})),
                          st.integers(top, hi), st.integers(lo, hi)))


def _draw_var_s(draw, ln):
    if ln == 0:
        return 0
    neg = draw(st.booleans())
    lo, hi = _var_s_range(ln, neg)
    if ln == 1:
        return draw(st.one_of(st.sampled_from([lo, hi, (lo + hi) // 2]), st.integers(lo, hi)))
    edge = 1 << (8 * (ln - 1))          # |v| below this has bit_length <= 8*(ln-1): the "top bit set" class
    if not neg:
        return draw(st.one_of(st.sampled_from([lo, lo + 1, edge - 1, edge, hi - 1, hi]), st.integers(lo, edge - 1), st.integers(lo, hi)))
    return draw(st.one_of(st.sampled_from([hi, hi - 1, -edge + 1, -edge, lo + 1, lo]), st.integers(-edge + 1, hi), st.integers(lo, hi)))


_bits01 = lambda n: st.integers(0, (1 << n) - 1).map(lambda v: R.uint(v, n)) if n else st.just('')

_leaf = st.integers(0, 24).flatmap(lambda n: _bits01(n)).map(lambda b: {'b': b, 'r': []})
_cellspec = st.one_of(
    _leaf,
    st.builds(lambda b, r: {'b': b, 'r': r}, st.integers(0, 40).flatmap(lambda n: _bits01(n)), st.lists(_leaf, max_size=2)),
    st.builds(lambda b, r: {'b': b, 'r': r}, st.sampled_from([1016, 1022, 1023]).flatmap(lambda n: _bits01(n)), st.lists(_leaf, min_size=4, max_size=4)),
)

_acc = st.one_of(st.binary(min_size=32, max_size=32),
                 st.sampled_from([b'\x00' * 32, b'\xff' * 32, b'\x00' * 31 + b'\x01', b'\x80' + b'\x00' * 31])).map(bytes.hex)

_KIND_W = [('uint', 5), ('int', 5), ('var_uint', 4), ('var_int', 6), ('coins', 3), ('bit', 2), ('bool', 2), ('bits', 2),
           ('bytes', 2), ('string', 2), ('maybe_ref', 3), ('dict', 1), ('dict_hm', 1), ('addr_none', 1), ('addr_ext', 3),
           ('addr_std', 2), ('addr_std_anycast', 3), ('slice', 4), ('refused', 3), ('rebind', 2), ('look', 3)]
_NEED = {'uint': 1, 'int': 1, 'var_uint': 1, 'var_int': 1, 'coins': 4, 'bit': 1, 'bool': 1, 'bits': 0, 'bytes': 0,
         'string': 8, 'maybe_ref': 1, 'dict': 1, 'dict_hm': 1, 'addr_none': 2, 'addr_ext': 11, 'addr_std': 267,
         'addr_std_anycast': 273, 'slice': 0, 'refused': 0, 'rebind': 0, 'look': 0}


def _fit_utf8(s, limit):
    """longest prefix of s whose UTF-8 encoding has at most `limit` bytes; never empty (limit >= 1)"""
    out, n = [], 0
    for ch in s:
        k = len(ch.encode('utf-8'))
        if n + k > limit:
            break
        out.append(ch)
        n += k
    return ''.join(out) or 'a'


def _draw_op(draw, kind, left, refs_left):
    if kind == 'uint':
        w = _width(draw, min(256, left))
        return {'op': 'uint', 'w': w, 'v': draw(st.one_of(st.sampled_from(_uint_boundary(w)), st.integers(0, (1 << w) - 1)))}
    if kind == 'int':
        w = _width(draw, min(257, left))
        return {'op': 'int', 'w': w, 'v': draw(st.one_of(st.sampled_from(_int_boundary(w)),
                                                         st.integers(-(1 << (w - 1)), (1 << (w - 1)) - 1)))}
    if kind in ('var_uint', 'var_int'):
        bl = draw(st.sampled_from([b for b in (1, 2, 3, 4, 4, 5, 5) if b <= left]))
        ln = _len_class(draw, min((1 << bl) - 1, (left - bl) // 8))
        return {'op': kind, 'bl': bl, 'v': _draw_var_u(draw, ln) if kind == 'var_uint' else _draw_var_s(draw, ln)}
    if kind == 'coins':
        return {'op': 'coins', 'v': _draw_var_u(draw, _len_class(draw, min(15, (left - 4) // 8)))}
    if kind == 'bit':
        return {'op': 'bit', 'v': draw(st.integers(0, 1)), 'form': draw(st.sampled_from(['int', 'int', 'str', 'bit_int', 'bool', 'tvm']))}
    if kind == 'bool':
        return {'op': 'bool', 'v': draw(st.booleans())}
    if kind == 'bits':
        n = draw(st.one_of(st.integers(0, min(left, 24)), st.integers(0, left)))
        if draw(st.booleans()):                # whole bytes: the lengths a "fast path" would single out
            n -= n % 8
        return {'op': 'bits', 'v': draw(_bits01(n)), 'form': draw(st.sampled_from(BITS_FORMS))}
    if kind == 'bytes':
        n = draw(st.one_of(st.integers(0, min(left // 8, 8)), st.integers(0, left // 8)))
        return {'op': 'bytes', 'v': draw(st.binary(min_size=n, max_size=n)).hex(), 'form': draw(st.sampled_from(BYTES_FORMS))}
    if kind == 'look':
        return {'op': 'look', 'how': draw(st.sampled_from(['look', 'look', 'look2', 'describe']))}
    if kind == 'string':
        limit = min(127, left // 8)
        t = draw(st.one_of(st.text(min_size=1, max_size=12), st.text(min_size=1, max_size=127),
                           st.text(alphabet='aZ09 é€𝄞\x00', min_size=1, max_size=127)))
        if draw(st.integers(0, 3)) == 0:              # a first character that decoders like to treat specially
            t = draw(st.sampled_from(['\ufeff', '\x00', '\ufffe', '\u200b', '\r\n', ' '])) + t
        return {'op': 'string', 'v': _fit_utf8(t, limit)}
    if kind in ('maybe_ref', 'dict'):
        v = draw(st.one_of(st.none(), _cellspec)) if refs_left else None
        return {'op': kind, 'v': v}
    if kind == 'dict_hm':
        kl = draw(st.sampled_from([8, 16, 32]))
        items = draw(st.dictionaries(st.integers(0, (1 << kl) - 1), st.integers(0, (1 << 32) - 1), max_size=4)) if refs_left else {}
        return {'op': 'dict_hm', 'kl': kl, 'items': [[k, items[k]] for k in sorted(items)]}
    if kind == 'slice':
        n = draw(st.one_of(st.integers(0, min(left, 24)), st.integers(0, left)))
        r = draw(st.integers(0, refs_left))
        pr = draw(st.sampled_from([0, 0, 1, 2, 4 - r, 4 - r]))
        pr = max(0, min(pr, 4 - r))
        pbn = draw(st.integers(0, min(1023 - n, 12)))
        via = draw(st.sampled_from(['store_slice', 'store_slice', 'store_slice:copy', 'store_slice:from_cell']))
        if (pbn == 0 and pr == 0) or draw(st.integers(0, 4)) == 0:
            via, pbn, pr = 'store_cell', 0, 0
        return {'op': 'slice', 'pb': draw(_bits01(pbn)), 'pr': pr, 'v': draw(_bits01(n)), 'r': r, 'via': via}
    if kind == 'rebind':
        return {'op': 'rebind', 'what': draw(st.sampled_from(['bits', 'refs', 'both']))}
    if kind == 'refused':
        return {'op': 'refused', 'w': draw(st.sampled_from([1, 2, 8, 32, 64, 255, 256])),
                'what': draw(st.sampled_from(['cell-bits', 'slice-bits', 'cell-refs', 'slice-refs', 'ref', 'uint-range', 'int-range',
                                              'uint-room', 'bits-room', 'bytes-room']))}
    if kind == 'addr_none':
        return {'op': 'addr_none'}
    if kind == 'addr_ext':
        cap = min(511, left - 11)
        n = draw(st.one_of(st.sampled_from(sorted({0, 0, min(1, cap), min(8, cap), min(256, cap), cap})), st.integers(0, cap)))
        v = draw(st.one_of(st.sampled_from(_uint_boundary(n)), st.integers(0, (1 << n) - 1))) if n else 0
        return {'op': 'addr_ext', 'len': n, 'v': v, 'via': draw(st.sampled_from(['obj', 'obj', 'obj', 'to_cell']))}
    if kind == 'addr_std':
        return {'op': 'addr_std', 'wc': draw(st.one_of(st.sampled_from([-128, -1, 0, 127]), st.integers(-128, 127))),
                'acc': draw(_acc), 'via': draw(st.sampled_from(['obj', 'obj', 'str', 'to_cell', 'friendly']))}
    if kind == 'addr_std_anycast':
        dmax = min(30, left - 272)
        depth = draw(st.one_of(st.sampled_from(sorted({1, min(2, dmax), dmax})), st.integers(1, dmax)))
        return {'op': 'addr_std_anycast', 'wc': draw(st.one_of(st.sampled_from([-128, -1, 0, 127]), st.integers(-128, 127))),
                'acc': draw(_acc), 'depth': depth,
                'pfx': draw(st.one_of(st.sampled_from(_uint_boundary(depth)), st.integers(0, (1 << depth) - 1))),
                'via': draw(st.sampled_from(['obj', 'obj', 'obj', 'to_cell']))}
    raise AssertionError(kind)


@st.composite
def _sequence(draw):
    terminal = draw(st.sampled_from(['none', 'none', 'none', 'snake', 'snake', 'empty_string', 'fill']))
    n = draw(st.sampled_from([1, 2, 3, 3, 3, 4, 4, 5, 6, 8, 10, 12, 16]))
    left, refs_left = 1023, (3 if terminal == 'snake' else 4)      # a long snake needs one reference of its own
    ops = []
    for _ in range(n):
        if left == 0 and len(ops) >= 3:
            break
        feasible = [k for k, wgt in _KIND_W if _NEED[k] <= left for _ in range(wgt)]
        op = _draw_op(draw, draw(st.sampled_from(feasible)), left, refs_left)
        left -= len(enc_bits(op))
        refs_left -= n_refs(op)
        assert left >= 0 and refs_left >= 0
        ops.append(op)
    if terminal == 'snake':
        used = 1023 - left
        pad = (-used) % 8
        if pad and used + pad <= 1023:
            ops.append({'op': 'uint', 'w': pad, 'v': draw(st.integers(0, (1 << pad) - 1))})
            used += pad
            pad = 0
        if not pad:
            avail = (1023 - used) // 8
            buckets = [(0, 0)]
            if avail >= 1:
                buckets.append((1, min(avail, 1000)))
                buckets.append((avail, avail))
            buckets += [(avail + 1, avail + 127), (avail + 128, 1000), (avail + 127, avail + 128)]
            lo, hi = draw(st.sampled_from(buckets))
            ln = draw(st.integers(lo, hi))
            how = draw(st.sampled_from(['bytes', 'bytes', 'string', 'string-prefix']))
            if how == 'bytes':
                ops.append({'op': 'snake', 'v': draw(st.binary(min_size=ln, max_size=ln)).hex()})
            else:                                # a text of exactly ln UTF-8 bytes (the prefix byte included)
                body = ln - (1 if how == 'string-prefix' and ln else 0)
                t0 = draw(st.sampled_from(['', '', '\x00', '\ufeff', '\x00\x00'])) + draw(st.text(alphabet='snake Zé€𝄞', min_size=1, max_size=24))
                t = _fit_utf8(t0 * (body // len(t0) + 1), body) if body else ''
                raw = t.encode('utf-8')
                raw += b'x' * (body - len(raw))
                if how == 'string-prefix':
                    raw = b'\x00' + raw
                ops.append({'op': 'snake', 'v': raw.hex(), 'as': how})
    elif terminal == 'empty_string':
        ops.append({'op': 'string', 'v': ''})
    elif terminal == 'fill' and left > 0:
        ops.append({'op': 'bits', 'v': draw(_bits01(left))})
    return {'ops': ops}


def strat_sequences(tier):
    return _sequence()


# --------------------------------------------------------------------------------------------------
# exhaustive boundary grids

def _stream(tag, n):
    out, i = b'', 0
    while len(out) < n:
        out += hashlib.sha256(f'{tag}/{i}'.encode()).digest()
        i += 1
    return out[:n]


def _wrap(op, salt):
    """[misaligning prefix bits, op, marker] - three operations of >= 2 kinds; the marker proves nothing was over-read"""
    p = salt % 8
    pat = R.from_bytes(_stream(f'pre{salt}', 1))[:p]
    return {'ops': [{'op': 'bits', 'v': pat}, op, {'op': 'uint', 'w': 3, 'v': 5}]}


def enum_fixed(tier):
    salt = 0
    for w in range(1, 257):
        for v in _uint_boundary(w):
            salt += 1
            yield _wrap({'op': 'uint', 'w': w, 'v': v}, salt)
    for w in range(1, 258):
        for v in _int_boundary(w):
            salt += 1
            yield _wrap({'op': 'int', 'w': w, 'v': v}, salt)


def var_grid_values(lmax):
    """boundary values around every byte length 1..lmax (+1 so that the first non-representable ones are considered)"""
    c = {0, 1, -1, 2, -2}
    for ln in range(1, lmax + 2):
        h, f = 1 << (8 * ln - 1), 1 << (8 * ln)
        for x in (h - 1, h, h + 1, f - 1, f, f + 1, f - 2, h + (h >> 1)):
            c.add(x)
            c.add(-x)
    return sorted(c)


def enum_var(tier):
    salt = 0
    for bl in (1, 2, 3, 4, 5):
        lmax = (1 << bl) - 1
        for v in var_grid_values(lmax):
            if v >= 0 and R.var_uint_len(v) <= lmax:
                salt += 1
                yield _wrap({'op': 'var_uint', 'bl': bl, 'v': v}, salt)
                if bl == 4:
                    salt += 1
                    yield _wrap({'op': 'coins', 'v': v}, salt)
            if R.var_int_len(v) <= lmax:
                salt += 1
                yield _wrap({'op': 'var_int', 'bl': bl, 'v': v}, salt)


def enum_addr(tier):
    salt = 0
    for p in range(8):
        yield _wrap({'op': 'addr_none'}, p)
    for n in range(0, 512):
        vals = sorted({0, (1 << n) - 1, (1 << n) >> 1, 1 if n else 0, int.from_bytes(_stream(f'ext{n}', 64), 'big') >> (512 - n)})
        for j, v in enumerate(vals):
            salt += 1
            yield _wrap({'op': 'addr_ext', 'len': n, 'v': v, 'via': 'to_cell' if j == 1 else 'obj'}, salt)
    for wc in range(-128, 128):
        for j, via in enumerate(('obj', 'str', 'to_cell', 'friendly')):      # every workchain through every way to name an address
            salt += 1
            acc = (b'\x00' * 32, b'\xff' * 32)[wc & 1] if j == 1 and wc % 16 < 2 else _stream(f'acc{wc}/{j}', 32)
            yield _wrap({'op': 'addr_std', 'wc': wc, 'acc': acc.hex(), 'via': via}, salt)
    for depth in range(1, 31):
        for pfx in _uint_boundary(depth):
            for via in ('obj', 'to_cell'):
                salt += 1
                wc = (-128, -1, 0, 127, depth)[salt % 5]
                yield _wrap({'op': 'addr_std_anycast', 'wc': wc, 'acc': _stream(f'any{salt}', 32).hex(), 'depth': depth,
                             'pfx': pfx, 'via': via}, salt)


def enum_snake(tier):
    full = tier != 'quick'
    for prefix in (0, 1, 64, 126, 127):
        avail = 127 - prefix
        edge = {0, 1, 999, 1000} | {avail + d for d in (-2, -1, 0, 1, 125, 126, 127, 128, 253, 254, 255)}
        lens = set(range(0, 1001)) if (full or prefix == 0) else set(range(0, 140)) | edge
        for ln in sorted(x for x in lens | edge if 0 <= x <= 1000):
            # 0..4 optional references in front (they are consumed before the snake is read); each costs one bit and
            # the group is re-aligned to a byte, which needs room: none after a 127-byte prefix
            refs = 0 if prefix == 127 else (ln + prefix) % 5
            avail = 127 - prefix - (1 if refs else 0)
            if ln > avail:
                refs = min(refs, 3)               # the chain needs the fourth reference
            ops = [{'op': 'bytes', 'v': _stream(f'pfx{prefix}', prefix).hex()}]
            for r in range(refs):
                ops.append({'op': 'maybe_ref', 'v': {'b': R.uint(r + 1, 4), 'r': []}})
            # maybe_ref bits break byte alignment: re-align with a uint so that the snake reader's precondition holds
            if refs % 8:
                ops.append({'op': 'uint', 'w': 8 - refs % 8, 'v': 1})
            if refs and ln % 3 == 0:          # the slice is printed after the references in front were read
                ops.append({'op': 'look', 'how': ('look', 'describe')[ln % 2]})
            ops.append({'op': 'snake', 'v': _stream(f'snake{prefix}/{ln}', ln).hex()})
            if len(ops) < 3:          # keep the byte budget: split the prefix instead of adding to it
                if prefix:
                    ops[0] = {'op': 'bytes', 'v': _stream(f'pfx{prefix}', prefix - 1).hex()}
                    ops.insert(1, {'op': 'uint', 'w': 8, 'v': 0xA5})
                else:
                    ops.insert(0, {'op': 'bits', 'v': ''})
            yield {'ops': ops}
    # "of any length": the longest snakes a cell tree can hold - the chain may be 1023 cells deep below the root, 127 bytes each
    for prefix, ln in ((0, 127 * 600), (0, 127 * 1000 + 5), (0, 127 * 1023), (0, 127 * 1024), (0, 127 * 1024 - 1), (100, 27 + 127 * 1023),
                       (127, 127 * 1023), (3, 124 + 127 * 1022 + 1)):
        yield {'ops': [{'op': 'bytes', 'v': _stream(f'pfx{prefix}', prefix).hex()}, {'op': 'bits', 'v': ''},
                       {'op': 'snake', 'v': _stream(f'snake-long{prefix}/{ln}', ln).hex(), 'as': 'bytes' if ln % 2 else 'string-ascii'}]}


def _sbits(tag, n):
    return R.from_bytes(_stream(tag, (n + 7) // 8))[:n]


def enum_forms(tier):
    """one bit sequence handed to store_bits in every accepted form, at every alignment; one byte string in every bytes-like form"""
    lens = list(range(0, 41)) + [47, 48, 63, 64, 65, 128, 255, 256, 257, 512]
    for n in lens:
        for p in (0, 1, 3, 7, 8, 9, 15, 16, 24):
            for form in BITS_FORMS[1:]:
                yield {'ops': [{'op': 'bits', 'v': _sbits(f'fp{p}', p)}, {'op': 'bits', 'v': _sbits(f'fv{n}/{p}', n), 'form': form},
                               {'op': 'int', 'w': 3, 'v': -2}]}
    for n in (0, 1, 2, 3, 8, 32, 64, 100):
        for p in (0, 1, 7, 8, 16):
            for form in BYTES_FORMS:
                yield {'ops': [{'op': 'bits', 'v': _sbits(f'fp{p}', p)}, {'op': 'bytes', 'v': _stream(f'fb{n}/{p}', n).hex(), 'form': form},
                               {'op': 'int', 'w': 3, 'v': -2}]}


def enum_described(tier):
    """every pattern of four optional references / dictionaries (absent, a cell, a HashMap cell) with small fields in between; the
    caller prints builder / slice once, before slot 0..3 or after the last one"""
    n = 0
    for code in range(81):
        slots = [(code // 3 ** j) % 3 for j in range(4)]
        for pos in range(5):
            n += 1
            ops = []
            for j, sl in enumerate(slots):
                if j == pos:
                    ops.append({'op': 'look', 'how': ('look', 'describe', 'look2')[n % 3]})
                if sl == 0:
                    ops.append({'op': ('maybe_ref', 'dict')[(j + code) % 2], 'v': None})
                elif sl == 1:
                    ops.append({'op': ('maybe_ref', 'dict')[(j + n) % 2], 'v': {'b': R.uint(0xA + j, 4 + j), 'r': []}})
                else:
                    ops.append({'op': 'dict_hm', 'kl': 8, 'items': [[j + 1, 11 * (j + 1)], [200 + j, 22]]})
                if (code + j) % 2:
                    ops.append({'op': 'int', 'w': 5, 'v': -3 - j})
            if pos == 4:
                ops.append({'op': 'look', 'how': ('look', 'describe', 'look2')[n % 3]})
            ops.append({'op': 'uint', 'w': 7, 'v': 77})
            yield {'ops': ops}


# ---- designed coincidences

def _gf2_dependency(vecs):
    """indices of a non-empty subset of the integers `vecs` whose XOR is 0 (Gaussian elimination over GF(2)); None if independent"""
    basis = {}
    for i, v in enumerate(vecs):
        m = 1 << i
        while v:
            top = v.bit_length() - 1
            if top not in basis:
                basis[top] = (v, m)
                break
            v, m = v ^ basis[top][0], m ^ basis[top][1]
        if v == 0:
            return [j for j in range(i + 1) if (m >> j) & 1]
    return None


def _xor(a, b):
    return bytes(x ^ y for x, y in zip(a, b))


def _b64raw(text):
    return base64.b64decode(text.replace('-', '+').replace('_', '/'), validate=True)


def case_twin(text):
    """another VALID user-friendly address that differs from `text` only in the case of letters (same tag). CRC-16/XMODEM has a
    zero initial value, so it is linear: flipping the case of the letter at position i changes the 36 bytes by a fixed XOR
    pattern D_i (distinct characters cover distinct bits), and the flipped set F gives a valid address iff the XOR over F of
    crc16(D_i[:34]) ^ D_i[34:] is zero."""
    raw = _b64raw(text)
    pos, syn = [], []
    for i in range(2, len(text)):            # characters 0 and 1 hold the tag byte
        if text[i].isascii() and text[i].isalpha():
            d = _xor(raw, _b64raw(text[:i] + text[i].swapcase() + text[i + 1:]))
            pos.append(i)
            syn.append(crc16_xmodem(d[:34]) ^ int.from_bytes(d[34:], 'big'))
    dep = _gf2_dependency(syn)
    if dep is None:
        return None
    flip = {pos[j] for j in dep}
    twin = ''.join(c.swapcase() if i in flip else c for i, c in enumerate(text))
    assert twin != text and twin.lower() == text.lower() and _b64raw(twin)[0] == raw[0]
    _text_means(twin)                        # asserts validity
    return twin


def crc_twin(wc, acc, first_byte, last_byte):
    """another account id, differing only inside bytes first_byte..last_byte, whose friendly form has the SAME crc16"""
    bits = [(j, k) for j in range(first_byte, last_byte + 1) for k in range(8)]
    syn = []
    for j, k in bits:
        d = bytearray(34)
        d[2 + j] = 1 << k
        syn.append(crc16_xmodem(bytes(d)))
    dep = _gf2_dependency(syn)
    out = bytearray(acc)
    for t in dep:
        out[bits[t][0]] ^= 1 << bits[t][1]
    out = bytes(out)
    assert out != acc and refaddr.friendly(wc, out)[-3:] == refaddr.friendly(wc, acc)[-3:]
    return out


def _aba(tag, a, b, salt, third=None):
    """the members of a coincidence stored A B A (or A B C) behind a misaligning prefix, closed by a marker"""
    p = salt % 8
    return {'twin': tag, 'ops': [{'op': 'bits', 'v': _sbits(f'tw{salt}', p)}, a, b, dict(third or a), {'op': 'uint', 'w': 3, 'v': 5}]}


def enum_twins(tier):
    salt = 0
    std = lambda wc, acc, via='obj', **kw: dict({'op': 'addr_std', 'wc': wc, 'acc': acc.hex(), 'via': via}, **kw)
    txt = lambda wc, acc, text: std(wc, acc, 'text', text=text)
    for k in range(6 if tier == 'quick' else 40):
        acc = _stream(f'twin-acc{k}', 32)
        wc = (0, -1, 0, 127, -128, k)[k % 6]
        flags = dict(bounceable=k % 2 == 0, test_only=k % 3 == 2)
        s1 = refaddr.friendly(wc, acc, **flags)
        # (1) texts equal after case folding - base64 is case sensitive: two different addresses
        s2 = case_twin(s1)
        if s2 is not None:
            wc2, acc2 = _text_means(s2)
            for a, b in ((txt(wc, acc, s1), txt(wc2, acc2, s2)), (txt(wc2, acc2, s2), txt(wc, acc, s1)),
                         (txt(wc, acc, s1), std(wc2, acc2)), (std(wc2, acc2, 'to_cell'), txt(wc, acc, s1))):
                salt += 1
                yield _aba('addr-text-casefold', a, b, salt)
        # (2) equal crc16 / equal text suffix (differences in the first bytes) / equal text prefix (difference in the last byte)
        for lo, hi, tag in ((0, 3, 'addr-same-crc+suffix'), (28, 31, 'addr-same-crc+prefix'), (0, 31, 'addr-same-crc')):
            acc2 = crc_twin(wc, acc, lo, hi)
            for via in ('text', 'obj', 'str'):
                salt += 1
                mk = (lambda c: txt(wc, c, refaddr.friendly(wc, c, **flags))) if via == 'text' else (lambda c: std(wc, c, via))
                yield _aba(tag, mk(acc), mk(acc2), salt)
        acc3 = acc[:31] + bytes([acc[31] ^ (1 << k % 8)])
        acc4 = bytes([acc[0] ^ (0x80 >> k % 8)]) + acc[1:]
        for other, tag in ((acc3, 'addr-differs-in-last-byte'), (acc4, 'addr-differs-in-first-byte')):
            for via in ('text', 'obj'):
                salt += 1
                mk = (lambda c: txt(wc, c, refaddr.friendly(wc, c, **flags))) if via == 'text' else (lambda c: std(wc, c, via))
                yield _aba(tag, mk(acc), mk(other), salt)
        # (3) one account in two workchains; Address.__hash__ twins (int(account) + workchain)
        wcb = (wc + 1) if wc < 127 else wc - 1
        for via in ('text', 'obj', 'str', 'to_cell'):
            salt += 1
            mk = (lambda w: txt(w, acc, refaddr.friendly(w, acc, **flags))) if via == 'text' else (lambda w: std(w, acc, via))
            yield _aba('addr-same-account-other-wc', mk(wc), mk(wcb), salt)
        n = int.from_bytes(acc, 'big')
        acch = (n + wc - wcb).to_bytes(32, 'big')
        for via in ('obj', 'to_cell'):
            salt += 1
            yield _aba('addr-hash-twin', std(wc, acc, via), std(wcb, acch, via), salt)
        # (4) several spellings of ONE address: the same value must come back, whichever was seen first
        sp = [refaddr.friendly(wc, acc, True, False), refaddr.friendly(wc, acc, False, False), refaddr.friendly(wc, acc, True, True),
              refaddr.friendly(wc, acc, False, True), refaddr.friendly(wc, acc, **flags, url_safe=False), refaddr.raw(wc, acc),
              f'{wc}:{acc.hex().upper()}']
        for j in range(len(sp)):
            salt += 1
            yield _aba('addr-spellings-of-one', txt(wc, acc, sp[j]), txt(wc, acc, sp[(j + 1) % len(sp)]), salt,
                       third=txt(wc, acc, sp[(j + 3) % len(sp)]))
        # (5) the same address without / with / with another anycast (Address.__eq__ and __hash__ ignore anycast)
        d = (1, 2, 5, 8, 29, 30)[k % 6]
        pf = int.from_bytes(acc[:4], 'big') >> (32 - d)
        anyc = lambda dd, pp, via='obj': {'op': 'addr_std_anycast', 'wc': wc, 'acc': acc.hex(), 'depth': dd, 'pfx': pp, 'via': via}
        for a, b, c in ((std(wc, acc), anyc(d, pf), std(wc, acc)), (anyc(d, pf), std(wc, acc), anyc(d, pf)),
                        (anyc(d, pf), anyc(d, pf ^ 1), anyc(d, pf)), (anyc(d, pf), anyc(d - 1 or 2, pf >> 1 if d > 1 else 3), anyc(d, pf)),
                        (anyc(d, pf, 'to_cell'), std(wc, acc, 'to_cell'), anyc(d, pf ^ 1, 'to_cell')),
                        (std(wc, acc, 'str'), anyc(d, pf), std(wc, acc, 'text', text=s1))):
            salt += 1
            yield _aba('addr-anycast-twin', a, b, salt, third=c)
        # (6) external addresses: same number at another length, same length other number
        ln = (1, 8, 9, 64, 200, 256)[k % 6]
        v = int.from_bytes(acc, 'big') >> (256 - ln)
        ext = lambda val, n_, via='obj': {'op': 'addr_ext', 'len': n_, 'v': val, 'via': via}
        for a, b in ((ext(v, ln), ext(v, ln + 1)), (ext(v, ln), ext(v ^ 1, ln)), (ext(v, ln, 'to_cell'), ext(v, ln + 8, 'to_cell')),
                     (ext(0, ln), ext(0, ln + 1))):
            salt += 1
            yield _aba('addr-ext-twin', a, b, salt)
    # (7) numbers and texts that are different values but equal under a lossy key
    u = lambda v, w: {'op': 'uint', 'w': w, 'v': v}
    i_ = lambda v, w: {'op': 'int', 'w': w, 'v': v}
    pairs = []
    for w in (8, 31, 32, 33, 64, 65, 128, 256):
        m = (1 << w) - 1
        x = int.from_bytes(_stream(f'twin-int{w}', 32), 'big') & m
        pairs += [('int-same-value-other-width', u(x >> 1, w), u(x >> 1, w - 1)), ('int-same-bits-other-sign', u(m, w), i_(-1, w)),
                  ('int-same-bits-other-sign', i_(-(1 << (w - 1)), w), u(1 << (w - 1), w)),
                  ('int-same-value-other-width', i_(-5, w), i_(-5, w + 1))]
        for mod in (32, 64):
            if w > mod:
                pairs.append((f'int-equal-mod-2^{mod}', u(x, w), u(x ^ (1 << mod) ^ (1 << (w - 1)), w)))
                pairs.append((f'int-equal-mod-2^{mod}', i_(x - (1 << (w - 1)), w), i_((x ^ (1 << mod)) - (1 << (w - 1)), w)))
    for bl in (3, 4, 5):
        pairs += [('varint-same-value-other-kind', {'op': 'var_uint', 'bl': bl, 'v': 200}, {'op': 'var_int', 'bl': bl, 'v': 200}),
                  ('varint-same-value-other-kind', {'op': 'var_int', 'bl': bl, 'v': -1}, {'op': 'var_uint', 'bl': bl, 'v': 255}),
                  ('varint-same-value-other-lenfield', {'op': 'var_uint', 'bl': bl, 'v': 65535}, {'op': 'var_uint', 'bl': bl - 1, 'v': 65535})]
    pairs += [('varint-same-value-other-kind', {'op': 'coins', 'v': 10 ** 9}, {'op': 'var_uint', 'bl': 5, 'v': 10 ** 9}),
              ('text-casefold', {'op': 'string', 'v': 'Stra\u00dfe Ab'}, {'op': 'string', 'v': 'STRASSE AB'}),
              ('text-casefold', {'op': 'string', 'v': 'ton'}, {'op': 'string', 'v': 'TON'}),
              ('text-normal-forms', {'op': 'string', 'v': 'caf\u00e9'}, {'op': 'string', 'v': 'cafe\u0301'}),
              ('text-vs-bytes', {'op': 'string', 'v': 'ab'}, {'op': 'bytes', 'v': '6162'}),
              ('bytes-casefold', {'op': 'bytes', 'v': '4142'}, {'op': 'bytes', 'v': '6162'}),
              ('bits-same-value-other-length', {'op': 'bits', 'v': '0101'}, {'op': 'bits', 'v': '101'}),
              ('bits-same-value-other-length', {'op': 'bits', 'v': '0000'}, {'op': 'bits', 'v': '00000', 'form': 'ba-little'}),
              ('ref-same-bits-other-refs', {'op': 'maybe_ref', 'v': {'b': '1010', 'r': []}}, {'op': 'maybe_ref', 'v': {'b': '1010', 'r': [{'b': '', 'r': []}]}}),
              ('ref-same-bits-other-refs', {'op': 'dict', 'v': {'b': '', 'r': []}}, {'op': 'maybe_ref', 'v': {'b': '0', 'r': []}})]
    for tag, a, b in pairs:
        for x, y in ((a, b), (b, a)):
            salt += 1
            yield _aba(tag, x, y, salt)


# ---- temporaries: values that die before the next one of the same type and size is made

_FRESH_KINDS = ('uint', 'int', 'var_uint', 'var_int', 'coins', 'bits', 'bytes', 'string', 'snake', 'addr_ext', 'addr_std',
                'addr_std_anycast')


def _copy_str(t):
    return t.encode('utf-8').decode('utf-8')             # a new str object (for more than one character)


def _fresh_arg(op):
    """a NEW object, referenced by nobody else, holding the value of op - what the caller hands to the store call"""
    from pytoniq_core.boc.address import ExternalAddress
    k = op['op']
    if k in ('uint', 'int', 'var_uint', 'var_int', 'coins'):
        v = op['v']
        n = v.bit_length() // 8 + 1
        return int.from_bytes(v.to_bytes(n, 'big', signed=True), 'big', signed=True)
    if k == 'bits':
        form = op.get('form', 'str')
        return _copy_str(op['v']) if form == 'str' else _bits_form(op['v'], form)
    if k == 'bytes':
        form = op.get('form', 'bytes')
        data = bytes.fromhex(op['v'])
        return data if form == 'bytes' else bytearray(data) if form == 'bytearray' else memoryview(data)
    if k == 'string':
        return _copy_str(op['v'])
    if k == 'snake':
        how = op.get('as', 'bytes')
        if how == 'bytes':
            return bytes.fromhex(op['v'])
        if how == 'string-ascii':
            return _ascii(bytes.fromhex(op['v'])).decode('ascii')
        return bytes.fromhex(op['v'])[1 if how == 'string-prefix' else 0:].decode('utf-8')
    if k == 'addr_ext':
        return ExternalAddress(op['v'], op['len'])
    if k in ('addr_std', 'addr_std_anycast'):
        via = op.get('via', 'obj')
        if via == 'str':
            return f"{op['wc']}:{op['acc']}"
        if via == 'text':
            assert _text_means(op['text']) == (op['wc'], bytes.fromhex(op['acc'])), 'generator: text does not denote the address'
            return _copy_str(op['text'])
        return _mk_address(op)
    raise AssertionError(k)


def _store_obj(b, op, x):
    """the store call of op with the value object x made by the caller"""
    k = op['op']
    if k == 'uint':
        return b.store_uint(x, op['w'])
    if k == 'int':
        return b.store_int(x, op['w'])
    if k == 'var_uint':
        return b.store_var_uint(x, op['bl'])
    if k == 'var_int':
        return b.store_var_int(x, op['bl'])
    if k == 'coins':
        return b.store_coins(x)
    if k == 'bits':
        return b.store_bits(x)
    if k == 'bytes':
        return b.store_bytes(x)
    if k == 'string':
        return b.store_string(x)
    if k == 'snake':
        how = op.get('as', 'bytes')
        if how == 'bytes':
            return b.store_snake_bytes(x)
        return b.store_snake_string(x, True) if how == 'string-prefix' else b.store_snake_string(x)
    if k in ('addr_ext', 'addr_std', 'addr_std_anycast'):
        return b.store_address(x)
    raise AssertionError(k)


def _born_at(make, old_id, tries=12):
    """a fresh value; when an earlier value of the series lived at old_id and the first attempt did not land there, the misses
    are held (so that the allocator has to hand out another block) and more are made, up to `tries`"""
    x = make()
    misses = []
    while old_id is not None and id(x) != old_id and len(misses) < tries:
        misses.append(x)
        x = make()
    return x


def check_temporaries(case):
    """case = {'pre': n, 'hold': 'through' | 'arg-only', 'series': [op, ...]}: one round trip per op of the series, each in its
    own builder / cell / slice behind n prefix bits; the ops are of one kind and one size and differ in content.  Every object of
    a round - the value handed to the store call above all - is dead before the next round's value is made, and that one is made
    so that it lands on the dead one's address whenever the allocator allows.  'arg-only': the value is referenced by the store
    call's argument alone (b.store_x(make())), it is dead as soon as the call returns; 'through': the caller holds it until the
    round is over.  The oracle of every round is the ordinary one (_run): rounds are independent according to the statement."""
    from harness import core
    note = getattr(core, 'note', None) or (lambda *a, **k: None)
    p = case['pre']
    pre = {'op': 'bits', 'v': _sbits(f'tp{p}', p)}
    old = None
    out = []
    for j, op in enumerate(case['series']):
        tail = [{'op': 'uint', 'w': 3, 'v': 5}] if op['op'] == 'snake' or p % 2 else \
            [{'op': 'uint', 'w': 3, 'v': 5}, {'op': 'bit', 'v': 1}]        # 3 or 4 operations: both ways of taking the slice
        ops = [pre, op] + ([] if op['op'] == 'snake' else tail)
        fails = []
        fresh = None
        box = []
        if op['op'] in _FRESH_KINDS:
            box.append(_born_at(lambda: _fresh_arg(op), old))
            if old is not None:
                note('runtime:address-of-dead-value-' + ('reused' if id(box[0]) == old else 'not-reused'))
            old = id(box[0])
            fresh = {1: box.pop if case['hold'] == 'arg-only' else (lambda: box[0])}
        _run(ops, fails, fresh)
        del fresh
        box.clear()                         # 'through': the value dies last, after everything else of its round
        for f in fails:
            if f.signature not in IGNORE:
                out.append(f if j == 0 else Fail('after-dead-value/' + f.signature,
                                                 f'round {j} of a series of equally long {op["op"]} values, each dead before the next '
                                                 f'was made (round 0 passed): {f.detail}'))
        if out:
            break
    known = _known()
    for f in out:
        if f.signature not in known:
            return f
    return out[0] if out else None


def classify_temporaries(case):
    ops = case['series']
    op = ops[0]
    k = op['op']
    yield 'kind=' + k + (':' + op.get('as', 'bytes') if k == 'snake' else ':' + op['form'] if 'form' in op else
                         ':' + op['via'] if 'via' in op else '')
    yield 'hold=' + case['hold']
    yield 'style=' + case['style']
    yield 'rounds=' + str(len(ops))
    if k in ('snake', 'bytes'):
        n = len(op['v']) // 2
        yield 'value-bytes=' + ('<=127' if n <= 127 else '128..479' if n < 480 else '480..4095' if n < 4096 else
                                '4096..65535' if n < 65536 else '>=65536')
        if k == 'snake':
            yield 'snake:free-bytes-in-root=' + str((1023 - case['pre']) // 8)
    if any(canon_op(a) == canon_op(b) for i, a in enumerate(ops) for b in ops[:i]):
        yield 'series:earlier-content-again'


def canon_op(op):
    return repr(sorted(op.items()))


def nontrivial_temporaries(case):
    ops = case['series']
    return len(ops) >= 2 and len({op['op'] for op in ops}) == 1 and len({canon_op(op) for op in ops}) >= 2


def _flip_byte(data, q, j):
    return data[:q] + bytes([data[q] ^ (0x11 * j)]) + data[q + 1:]


def _flip_bit01(v, q):
    return v[:q] + ('1' if v[q] == '0' else '0') + v[q + 1:]


def _series_bytes(tag, n, style, points, floor=0):
    """equally long byte strings: 'one-byte' - each differs from the first in ONE byte (at one of `points`), 'middleH' - they
    share the first H and the last H bytes and differ in between; the first content comes once more at the end"""
    base = _stream(tag, n)
    if floor:
        base = bytes(floor) + base[floor:]
    if style == 'one-byte':
        qs = sorted({q for q in points if floor <= q < n})[:5] or [n - 1]
        out = [base] + [_flip_byte(base, q, j + 1) for j, q in enumerate(qs)]
    else:
        h = int(style[6:])
        if n <= 2 * h + 1:
            return None
        out = [base] + [base[:h] + _stream(f'{tag}/m{j}', n - 2 * h) + base[n - h:] for j in (1, 2, 3)]
    return out + [base]


def enum_temporaries(tier):
    case = lambda pre, hold, style, series: {'pre': pre, 'hold': hold, 'style': style, 'series': series}
    holds = ('through', 'arg-only')
    c = 0
    # (1) snake byte strings / texts longer than the room in the first cell
    sizes = (1, 127, 128, 300, 480, 1052, 5000, 70000) if tier == 'quick' else (1, 2, 126, 127, 128, 129, 254, 300, 480, 513, 1052, 5000, 66000, 70000, 120000)
    for pb in (0, 4, 100, 127):
        avail = 127 - pb
        for extra in sizes:
            n = avail + extra if extra < 300 else extra
            for style in ('one-byte', 'middle16', 'middle64'):
                for how in ('bytes', 'string-ascii', 'string-prefix'):
                    c += 1
                    if n >= 5000 and (c + pb) % 3:             # the long ones: every third combination
                        continue
                    floor = 1 if how == 'string-prefix' else 0
                    pts = (floor, 16, avail - 1, avail, avail + 1, avail + 126, avail + 127, (avail + n) // 2, n - 128, n - 17, n - 1)
                    pts = [q for q in pts if q >= avail - 1][:5] if c % 2 else [q for q in pts if q < n - 16 and q >= 16 and q >= avail][:5]
                    vals = _series_bytes(f'tmp-snake{pb}/{extra}', n, style, pts, floor)
                    if vals is None:
                        continue
                    if how != 'bytes':                          # texts: 7-bit bytes
                        vals = [bytes(floor) + bytes(x & 0x7F for x in v[floor:]) if how == 'string-prefix' else v for v in vals]
                    ser = [dict({'op': 'snake', 'v': v.hex()}, **({} if how == 'bytes' else {'as': how})) for v in vals]
                    yield case(8 * pb, holds[c % 2], style, ser)
    # (2) byte strings and texts that fit the cell
    for n in (16, 33, 64, 100, 126):
        for form in BYTES_FORMS:
            for style in ('one-byte', 'middle16'):
                c += 1
                vals = _series_bytes(f'tmp-bytes{n}', n, style, (0, n // 2, n - 1, 16, n - 17))
                if vals is not None:
                    yield case((0, 1, 7)[c % 3], holds[c % 2], style, [{'op': 'bytes', 'v': v.hex(), 'form': form} for v in vals])
        for alphabet in ('ascii', 'multibyte'):
            c += 1
            base = _ascii(_stream(f'tmp-str{n}', n)).decode() if alphabet == 'ascii' else ('aé€' * n)[:n // 3 + 1]
            base = _fit_utf8(base, n)
            qs = sorted({0, len(base) // 2, len(base) - 1})
            vals = [base] + [base[:q] + ('Z' if base[q] != 'Z' else 'Y') + base[q + 1:] for q in qs if len(base[q].encode()) == 1] + [base]
            yield case((0, 1, 7)[c % 3], holds[c % 2], 'one-char', [{'op': 'string', 'v': v} for v in vals])
    # (3) numbers of one width / one byte length, differing in one bit
    for w in (63, 64, 65, 128, 200, 256):
        x = int.from_bytes(_stream(f'tmp-int{w}', 32), 'big') >> (256 - w) | 1 << (w - 1)
        xs = [x] + [x ^ (1 << q) for q in sorted({0, 31, w // 2, w - 2})] + [x]
        for kind in ('uint', 'int', 'var_uint', 'var_int', 'coins'):
            if kind == 'coins' and w > 120:
                continue
            c += 1
            if kind == 'uint':
                ser = [{'op': 'uint', 'w': w, 'v': v} for v in xs]
            elif kind == 'int':
                ser = [{'op': 'int', 'w': w + 1, 'v': (v if j % 2 else -v)} for j, v in enumerate(xs)]
            elif kind == 'coins':
                ser = [{'op': 'coins', 'v': v} for v in xs]
            else:
                ser = [{'op': kind, 'bl': 6 if w > 240 else 5, 'v': v if kind == 'var_uint' or j % 2 == 0 else -v} for j, v in enumerate(xs)]
            ser = [o for o in ser if o['op'] not in ('var_uint', 'var_int') or o['bl'] <= 5]
            if ser:
                yield case((0, 3, 8)[c % 3], holds[c % 2], 'one-bit', ser)
    # (4) bit strings in every form
    for n in (64, 257, 1000):
        v0 = _sbits(f'tmp-bits{n}', n)
        vs = [v0] + [_flip_bit01(v0, q) for q in (0, 40, n // 2, n - 1)] + [v0]
        for form in BITS_FORMS:
            c += 1
            yield case((0, 5, 16)[c % 3], holds[c % 2], 'one-bit', [{'op': 'bits', 'v': v, 'form': form} for v in vs])
    # (5) addresses: Address / ExternalAddress objects and texts (all texts of one spelling are equally long)
    for k in range(4):
        acc = _stream(f'tmp-acc{k}', 32)
        wc = (0, -1, 127, -128)[k]
        accs = [acc] + [_flip_byte(acc, q, j + 1) for j, q in enumerate((0, 15, 16, 31))] + [acc]
        for via in ('obj', 'str', 'text'):
            c += 1
            ser = [dict({'op': 'addr_std', 'wc': wc, 'acc': a.hex(), 'via': via},
                        **({'text': refaddr.friendly(wc, a, bool(k & 1), bool(k & 2))} if via == 'text' else {})) for a in accs]
            yield case((0, 1, 6)[c % 3], holds[c % 2], 'one-byte', ser)
        c += 1
        d = (1, 5, 17, 30)[k]
        pf = int.from_bytes(acc[:4], 'big') >> (32 - d)
        yield case(k, holds[c % 2], 'anycast', [{'op': 'addr_std_anycast', 'wc': wc, 'acc': a.hex(), 'depth': d, 'pfx': pf ^ (j & 1), 'via': 'obj'}
                                                for j, a in enumerate(accs[:4])] + [{'op': 'addr_std', 'wc': wc, 'acc': acc.hex(), 'via': 'obj'}])
        ln = (8, 64, 256, 500)[k]
        v = int.from_bytes(_stream(f'tmp-ext{k}', 64), 'big') >> (512 - ln) | 1 << (ln - 1)
        c += 1
        yield case(k, holds[c % 2], 'one-bit', [{'op': 'addr_ext', 'len': ln, 'v': x, 'via': 'obj'} for x in (v, v ^ 1, v ^ (1 << ln // 2), v ^ 2, v)])
    # (6) referenced cells of one size (made and dropped by the round itself)
    for n in (8, 200, 1023):
        v0 = _sbits(f'tmp-cell{n}', n)
        for kind in ('maybe_ref', 'dict'):
            c += 1
            yield case(c % 8, 'through', 'one-bit', [{'op': kind, 'v': {'b': v, 'r': []}} for v in (v0, _flip_bit01(v0, n // 2), _flip_bit01(v0, n - 1), v0)])


SUBCHECKS = [
    Sub('grid-fixed-width', check, enum=enum_fixed, classify=classify, nontrivial=nontrivial, shards=(8, 8), exhaustive=True,
        note='every width 1..256 (uint) / 1..257 (int) x {min,min+1,-2,-1,0,1,max-1,max,top-bit,...} at 8 bit offsets'),
    Sub('grid-var-int', check, enum=enum_var, classify=classify, nontrivial=nontrivial, shards=(8, 8), exhaustive=True,
        note='length-field widths 1..5 x every byte length x boundary values (representable ones), var_uint/var_int/coins'),
    Sub('grid-addresses', check, enum=enum_addr, classify=classify, nontrivial=nontrivial, shards=(8, 8), exhaustive=True,
        note='addr_none; every external length 0..511; every workchain x 3 ways of storing; every anycast depth 1..30'),
    Sub('grid-snake', check, enum=enum_snake, classify=classify, nontrivial=nontrivial, shards=(8, 16),
        note='snake lengths 0..1000 after 0/1/64/126/127 prefix bytes and 0..4 consumed references'),
    Sub('grid-bits-forms', check, enum=enum_forms, classify=classify, nontrivial=nontrivial, shards=(8, 8), exhaustive=True,
        note='store_bits(list/tuple/bools/bitarray big+little/frozenbitarray big+little/TvmBitarray) for every length 0..40, word edges, '
             'after 0,1,3,7,8,9,15,16,24 bits; store_bytes(bytes/bytearray/memoryview)'),
    Sub('grid-refs-described', check, enum=enum_described, classify=classify, nontrivial=nontrivial, shards=(8, 8), exhaustive=True,
        note='3^4 patterns of optional references / dictionaries x the position (0..4) at which builder and slice are printed'),
    Sub('grid-coincidences', check, enum=enum_twins, classify=classify, nontrivial=nontrivial, shards=(8, 8),
        note='designed pairs stored A B A: case-folding / equal-crc / equal-prefix / equal-suffix address texts, workchain and '
             '__hash__ twins, anycast twins, spellings of one address, external-address twins, ints equal mod 2^32/2^64, texts'),
    Sub('grid-temporaries', check_temporaries, enum=enum_temporaries, classify=classify_temporaries, nontrivial=nontrivial_temporaries,
        shards=(8, 8), case_cpu_s=60.0,
        note='series of equally long values of one kind (snake byte strings / texts up to 70 000 bytes, bytes, strings, big integers, bit '
             'strings in every form, Address / ExternalAddress objects and address texts, cells) that differ in one byte / one bit / '
             'the middle only; one round trip each, every value dead before the next is made on its address (class runtime:*)'),
    Sub('sequences-random', check, strategy=strat_sequences, classify=classify, nontrivial=nontrivial,
        n=(8000, 200000), shards=(16, 32)),
]

# the same generated cases, several at a time, checked by threads that run at the same time (core.run_overlapping): per-call state
# kept in a place two calls share shows only there
SUBCHECKS.append(__import__('harness.core', fromlist=['overlapped']).overlapped(next(s for s in SUBCHECKS if s.name == 'sequences-random'), k=4, n=(80, 3000)))
