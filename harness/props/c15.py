"""C15 - messages, state-inits and currency values serialise per block.tlb and round-trip.

Cases are plain data in the value language of harness/ref/reftlb.py (records = dicts with '_', cells =
{'bits','refs','special'}, dictionaries = sorted [[key, value]] lists):

  message sub-checks   {'msg': {'_': 'message', 'info': <CommonMsgInfo value>, 'init': None | <StateInit value>,
                                'body': <cell>}}          the LOGICAL message - no Either placement in the case
  wrapper sub-checks   {'kind': 'StateInit' | 'CurrencyCollection' | 'ExtraCurrencyCollection' | 'WalletV3Data' |
                                'WalletV4Data' | 'HighloadWalletData' | 'NftItemData' | 'HashUpdate', 'v': <value>}

Oracle for a message m (statement clause in brackets)
  0. reftlb lays m out in each of the (up to) four placements init inline/ref x body inline/ref. If NO placement fits a
     cell (only possible when the header alone exceeds 1023 - 3 bits: two anycast addresses + maximal amounts) the
     statement promises nothing and the case passes vacuously (class 'unrepresentable'). Otherwise, since a body or a
     state-init always fits a cell of its own, success is promised.
  A. ["serialising never fails for lack of room"] MessageAny(...).serialize() returns a cell.
         serialize-raises/<refs-overflow|bits-overflow|exc>/<placement the greedy writer runs into>
  B. ["decodes, under an independent reading of the TL-B schema, to the same logical message"] reftlb decodes the cell as
     Message Any, consuming it exactly, and the value equals m with placement ignored (header fields, anycast, grams,
     extra currencies as a dictionary, fees, lt, at; init fields, cells compared structurally = by hash; body = the
     remainder when inline, the referenced cell otherwise).      decode-fails/<where>, decode-differs/<field path>
  C. ["the library's own parser returns the same message from it and from any other valid encoding of it"]
     MessageAny.deserialize is applied to the library's own cell (compared with what B read from that cell, so that a
     writer defect is not reported twice) and to EVERY valid placement produced by reftlb (compared with m).
         deserialize-raises/..., deserialize-differs/<field path>                       when every encoding is affected
         deserialize-.../own/...  or  .../foreign-placement/<init-..-body-..>/...       when only some are
  Wrappers: same three steps (A serialize, B independent decode, C parse own cell + reftlb's encoding).
         <kind>/serialize-raises/..  <kind>/decode-differs/<path>  <kind>/deserialize-differs/<path>
         highload/old_queries-ignored (writer drops the dictionary), highload/old_queries-not-parsed (reader)

Not asserted (deliberately)
  * WHICH placement the writer picks when several are valid; the exception types; canonical form of the produced cell
    beyond "decodes exactly" (dictionary label kinds are C10's business, minimal VarUInteger length C06's).
  * addr_var addresses: the library has no API object for them (load_address raises "todo"), so they are not in the
    domain; neither are CommonMsgInfoRelaxed headers nor exotic body / init cells.
  * An empty extra-currency dictionary parsed as `None` instead of `{}` and Bool fields returned as 0/1 are accepted
    (representation, not content). Attribute names are the constructor parameters of the library classes.
  * For messages that no placement can hold nothing is asserted (not even that serialize raises).
  * "consumes exactly" for the wrappers' parsers (C16's clause), object identity, repr.

env VERIF_IGNORE_SIG='sig1,sig2' (development aid): failures with these signatures are dropped, the remaining clauses of
the same case are still evaluated. Signatures in known_findings.json are reported only when a case has no other failure.
"""
import os
import re

from hypothesis import strategies as st
from harness.core import Sub, Fail, call, exc_sig, load_known
from harness.ref import reftlb as R
from harness.ref import tlb_msg as M

RULE = ('message case = header (int / ext-in / ext-out; addr_std wc -128..127 with or without anycast, addr_extern of '
        '0..511 bits, addr_none; Grams and extra-currency amounts from {0, 1, 2^(8k)-1, 2^(8k-1), max, random}; lt/at '
        'biased to top-bit-set) x extra-currency dictionary of 0..3 entries x state-init (absent or any subset of '
        'split_depth, special, code, data, library) x body whose size is drawn around the inline capacity computed by '
        'the model (capacity-1, capacity, capacity+1 bits; capacity-1/0/+1 refs; also 0, 1023 bits, 0 and 4 refs). '
        'message-grid enumerates header kind x extra x init shape x target placement x (dbits, drefs) in {-1,0,+1,min,max}^2; '
        'message-near-full-header enumerates internal headers of exactly 1003..1023 bits x init shape x 5 body sizes. '
        'wrapper case = a reftlb-generated value of one of the eight stand-alone types. '
        'non-trivial (message) = the init or the body does not fit inline, or extra currencies are present; '
        'non-trivial (wrapper) = an optional part / dictionary / reference is present; distinct = distinct case')
ASSUMPTIONS = ['harness/ref/reftlb.py + tlb_msg.py: independent TL-B interpreter and schema tables, self-checked at import '
               'on hand-assembled encodings (Grams, addresses, int/ext headers, StateInit, Message placements, HashmapE)',
               'harness/ref/refdict.py canonical Hashmap builder (validated by C09/C10), refcell.RCell',
               'Builder.store_bits/store_ref/end_cell (used by lib_from_rcell to hand foreign cells to the parser)']

KINDS = ('int_msg_info', 'ext_in_msg_info', 'ext_out_msg_info')
INFO_STD = M.common_msg_info(M.MsgAddressIntStd, R.MsgAddressExt)      # what the library's API can express
NFT_STD = R.Record('nft_item_data', '#_', [('index', R.U(64)), ('collection_address', M.MsgAddressStd),
                                           ('owner_address', M.MsgAddressStd), ('content', R.RefCell)])
HIGHLOAD_STD = R.Record('highload_wallet_data', '#_', [
    ('wallet_id', R.U(32)), ('last_cleaned', R.U(64)), ('public_key', R.Bytes(32)),
    ('old_queries', R.HashmapE(64, R.Record('wallet_message', '$_', [('send_mode', R.U(8)),
                                                                    ('message', R.Ref(M.message(info=INFO_STD)))]),
                               counts=(0, 1, 1, 2)))])
WRAPPERS = {                 # kind -> (schema type, type used for generation)
    'StateInit': (M.StateInit, M.StateInit),
    'CurrencyCollection': (M.CurrencyCollection, M.CurrencyCollection),
    'ExtraCurrencyCollection': (M.ExtraCurrencyCollection, M.ExtraCurrencyCollection),
    'WalletV3Data': (M.WalletV3Data, M.WalletV3Data),
    'WalletV4Data': (M.WalletV4Data, M.WalletV4Data),
    'HighloadWalletData': (M.HighloadWalletData, HIGHLOAD_STD),
    'NftItemData': (M.NftItemData, NFT_STD),
    'HashUpdate': (M.HashUpdate, M.HashUpdate),
}
MISSING = '<missing attribute>'


# --------------------------------------------------------------------------------------------------
# model side: placements and capacities (no library code)

def pname(pi, pb):
    return f'init-{"none" if pi is None else "inline" if pi == "left" else "ref"}-body-{"inline" if pb == "left" else "ref"}'


def wrap(msg, pi, pb):
    return {'_': 'message', 'info': msg['info'],
            'init': None if msg['init'] is None else {'either': pi, 'v': msg['init']},
            'body': {'either': pb, 'v': msg['body']}}


def valid_placements(msg):
    """{(init placement, body placement): RCell} for every placement that fits one cell"""
    out = {}
    for pi in ((None,) if msg['init'] is None else ('left', 'right')):
        for pb in ('left', 'right'):
            try:
                out[(pi, pb)] = R.to_cell(M.MessageAny, wrap(msg, pi, pb))
            except R.ModelError as e:
                if e.kind == 'domain':
                    raise ValueError(f'case outside the value domain: {e}')
    return out


def sizes(msg):
    """(header bits, header refs, init bits, init refs, body bits, body refs)"""
    hb, hr = R.measure(M.CommonMsgInfo, msg['info'])
    ib, ir = R.measure(M.StateInit, msg['init']) if msg['init'] is not None else (0, 0)
    return hb, hr, ib, ir, len(msg['body']['bits']), len(msg['body']['refs'])


def body_capacity(hbits, hrefs, ibits, irefs, has_init, init_inline):
    """largest inline body (bits, refs) once the header and the init (in the given placement) are laid out; the
    numbers may be negative when even the placement of the init does not fit"""
    used_b = hbits + 1 + ((1 + (ibits if init_inline else 0)) if has_init else 0) + 1
    used_r = hrefs + ((irefs if init_inline else 1) if has_init else 0)
    return 1023 - used_b, 4 - used_r


def greedy(msg):
    """the placement a writer picks that inlines whatever still fits, init first (only used to NAME a failure class)"""
    hb, hr, ib, ir, bb, br = sizes(msg)
    pi = None
    if msg['init'] is not None:
        cb, cr = body_capacity(hb, hr, ib, ir, True, True)
        pi = 'left' if cb >= 0 and cr >= 0 else 'right'
    cb, cr = body_capacity(hb, hr, ib, ir, pi is not None, pi == 'left')
    return pi, ('left' if bb <= cb and br <= cr else 'right')


def _dist(d):
    return '<-1' if d < -1 else '>+1' if d > 1 else f'{d:+d}' if d else '0'


def msg_labels(case):
    msg = case['msg']
    hb, hr, ib, ir, bb, br = sizes(msg)
    valid = valid_placements(msg)
    out = ['kind=' + msg['info']['_'], f'extra-currencies={min(hr, 1) and len(msg["info"]["value"]["other"]["dict"])}']
    nt = hr > 0
    if not valid:
        out.append('unrepresentable')
        return out, False
    if msg['init'] is None:
        out.append('init=absent')
    else:
        fits = any(pi == 'left' for pi, _ in valid)
        out.append('init=' + ('fits-inline' if fits else 'ref-only') + f'/refs={ir}')
        shape = ''.join(c for c, k in zip('SsCDL', ('split_depth', 'special', 'code', 'data', 'library'))
                        if msg['init'][k] is not None)
        out.append('init-subset=' + (shape or '-'))
        nt = nt or not fits
    pi, pb = greedy(msg)
    out.append('greedy=' + pname(pi, pb))
    cb, cr = body_capacity(hb, hr, ib, ir, pi is not None, pi == 'left')
    out.append('body-dbits=' + _dist(bb - cb))
    out.append('body-drefs=' + _dist(br - cr))
    out.append('body=' + ('fits-inline' if pb == 'left' else 'ref-only-under-greedy'))
    out.append(f'valid-placements={len(valid)}')
    if bb == 0 and br == 0:
        out.append('body=empty')
    for f in ('src', 'dest'):
        a = msg['info'][f]
        out.append(f'{f}=' + a['_'] + ('+anycast' if a.get('anycast') else ''))
    nt = nt or pb == 'right'
    return out, nt


def classify_msg(case):
    return msg_labels(case)[0]


def nontrivial_msg(case):
    return msg_labels(case)[1]


# --------------------------------------------------------------------------------------------------
# value -> library objects

def lib_cell(plain):
    from harness.gen.dag import lib_from_rcell
    return lib_from_rcell(R.plain_to_cell(plain))


def lib_addr(a):
    from pytoniq_core.boc.address import Address, ExternalAddress
    k = a['_']
    if k == 'addr_none':
        return None
    if k == 'addr_extern':
        return ExternalAddress(int(a['external_address'], 2) if a['external_address'] else 0, a['len'])
    if k == 'addr_std':
        x = Address((a['workchain_id'], bytes.fromhex(a['address'])))
        if a['anycast'] is not None:
            x.set_anycast(a['anycast']['depth'], int(a['anycast']['rewrite_pfx'], 2))
        return x
    raise ValueError(f'no library object for {k}')


def lib_ecc(v):
    from pytoniq_core.tlb.block import ExtraCurrencyCollection
    return ExtraCurrencyCollection({k: x for k, x in v['dict']})


def lib_cc(v):
    from pytoniq_core.tlb.block import CurrencyCollection
    return CurrencyCollection(v['grams'], lib_ecc(v['other']))


def lib_info(i):
    from pytoniq_core.tlb.transaction import InternalMsgInfo, ExternalMsgInfo, ExternalOutMsgInfo
    k = i['_']
    if k == 'int_msg_info':
        return InternalMsgInfo(ihr_disabled=i['ihr_disabled'], bounce=i['bounce'], bounced=i['bounced'],
                               src=lib_addr(i['src']), dest=lib_addr(i['dest']), value=lib_cc(i['value']),
                               ihr_fee=i['ihr_fee'], fwd_fee=i['fwd_fee'], created_lt=i['created_lt'],
                               created_at=i['created_at'])
    if k == 'ext_in_msg_info':
        return ExternalMsgInfo(src=lib_addr(i['src']), dest=lib_addr(i['dest']), import_fee=i['import_fee'])
    return ExternalOutMsgInfo(src=lib_addr(i['src']), dest=lib_addr(i['dest']), created_lt=i['created_lt'],
                              created_at=i['created_at'])


def lib_init(s):
    from pytoniq_core.tlb.account import StateInit, TickTock
    if s is None:
        return None
    return StateInit(split_depth=s['split_depth'],
                     special=None if s['special'] is None else TickTock(s['special']['tick'], s['special']['tock']),
                     code=None if s['code'] is None else lib_cell(s['code']),
                     data=None if s['data'] is None else lib_cell(s['data']),
                     library=None if s['library'] is None else lib_cell(s['library']))


def lib_msg(m):
    from pytoniq_core.tlb.transaction import MessageAny
    return MessageAny(lib_info(m['info']), lib_init(m['init']), lib_cell(m['body']))


def lib_wrapper(kind, v):
    from pytoniq_core.tlb.custom.wallet import WalletV3Data, WalletV4Data, HighloadWalletData, WalletMessage
    from pytoniq_core.tlb.custom.nft import NftItemData
    from pytoniq_core.tlb.utils import HashUpdate
    if kind == 'StateInit':
        return lib_init(v)
    if kind == 'CurrencyCollection':
        return lib_cc(v)
    if kind == 'ExtraCurrencyCollection':
        return lib_ecc(v)
    if kind == 'WalletV3Data':
        return WalletV3Data(seqno=v['seqno'], wallet_id=v['wallet_id'], public_key=bytes.fromhex(v['public_key']))
    if kind == 'WalletV4Data':
        return WalletV4Data(seqno=v['seqno'], wallet_id=v['wallet_id'], public_key=bytes.fromhex(v['public_key']),
                            plugins=None if v['plugins'] is None else lib_cell(v['plugins']))
    if kind == 'HighloadWalletData':
        q = {k: WalletMessage(x['send_mode'], lib_msg(R.strip_either(x['message']))) for k, x in v['old_queries']}
        return HighloadWalletData(wallet_id=v['wallet_id'], last_cleaned=v['last_cleaned'],
                                  public_key=bytes.fromhex(v['public_key']), old_queries=q)
    if kind == 'NftItemData':
        return NftItemData(index=v['index'], collection_address=lib_addr(v['collection_address']),
                           owner_address=lib_addr(v['owner_address']), content=lib_cell(v['content']))
    if kind == 'HashUpdate':
        return HashUpdate(bytes.fromhex(v['old_hash']), bytes.fromhex(v['new_hash']))
    raise ValueError(kind)


def lib_class(kind):
    import importlib
    mod = {'StateInit': 'account', 'CurrencyCollection': 'block', 'ExtraCurrencyCollection': 'block',
           'HashUpdate': 'utils', 'NftItemData': 'custom.nft'}.get(kind, 'custom.wallet')
    return getattr(importlib.import_module('pytoniq_core.tlb.' + mod), kind)


# --------------------------------------------------------------------------------------------------
# library objects -> values

def _get(o, name):
    return getattr(o, name, MISSING)


def _ubits(x, n):
    if isinstance(x, int) and not isinstance(x, bool) and isinstance(n, int) and n >= 0 and 0 <= x < (1 << n):
        return format(x, f'0{n}b') if n else ''
    return f'<{x!r} in {n!r} bits>'


def v_cell(c):
    if c is None or c is MISSING:
        return c
    if not hasattr(c, 'bits') or not hasattr(c, 'refs'):
        return f'<{type(c).__name__}>'
    return R.cell_to_plain(R.rcell_of(c))


def v_hex(b):
    return b.hex() if isinstance(b, (bytes, bytearray)) else f'<{b!r}>'


def v_addr(a):
    from pytoniq_core.boc.address import Address, ExternalAddress
    if a is None:
        return {'_': 'addr_none'}
    if isinstance(a, ExternalAddress):
        if a.external_address is None:
            return {'_': 'addr_none'}
        return {'_': 'addr_extern', 'len': a.len, 'external_address': _ubits(a.external_address, a.len)}
    if isinstance(a, Address):
        ac = a.anycast
        return {'_': 'addr_std',
                'anycast': None if ac is None else {'_': 'anycast_info', 'depth': ac.depth,
                                                    'rewrite_pfx': _ubits(ac.rewrite_pfx, ac.depth)},
                'workchain_id': a.wc, 'address': v_hex(a.hash_part)}
    return {'_': f'<{type(a).__name__}>'}


def v_ecc(o):
    if o is MISSING or o is None:
        return o
    d = _get(o, 'dict')
    if d is None:
        d = {}                                    # empty dictionary handed back as None: accepted
    if not isinstance(d, dict):
        return {'_': 'extra_currencies', 'dict': f'<{type(d).__name__}>'}
    return {'_': 'extra_currencies', 'dict': [[k, d[k]] for k in sorted(d)]}


def v_cc(o):
    if o is MISSING or o is None:
        return o
    return {'_': 'currencies', 'grams': _get(o, 'grams'), 'other': v_ecc(_get(o, 'other'))}


def v_info(i):
    n = type(i).__name__
    if n == 'InternalMsgInfo':
        out = {'_': 'int_msg_info'}
        for f in ('ihr_disabled', 'bounce', 'bounced'):
            out[f] = _get(i, f)
        out['src'] = v_addr(_get(i, 'src'))
        out['dest'] = v_addr(_get(i, 'dest'))
        out['value'] = v_cc(_get(i, 'value'))
        for f in ('ihr_fee', 'fwd_fee', 'created_lt', 'created_at'):
            out[f] = _get(i, f)
        return out
    if n == 'ExternalMsgInfo':
        return {'_': 'ext_in_msg_info', 'src': v_addr(_get(i, 'src')), 'dest': v_addr(_get(i, 'dest')),
                'import_fee': _get(i, 'import_fee')}
    if n == 'ExternalOutMsgInfo':
        return {'_': 'ext_out_msg_info', 'src': v_addr(_get(i, 'src')), 'dest': v_addr(_get(i, 'dest')),
                'created_lt': _get(i, 'created_lt'), 'created_at': _get(i, 'created_at')}
    return {'_': f'<{n}>'}


def v_init(s):
    if s is None or s is MISSING:
        return s
    sp = _get(s, 'special')
    if sp is not None and sp is not MISSING:
        sp = {'_': 'tick_tock', 'tick': _get(sp, 'tick'), 'tock': _get(sp, 'tock')}
    return {'_': 'StateInit', 'split_depth': _get(s, 'split_depth'), 'special': sp, 'code': v_cell(_get(s, 'code')),
            'data': v_cell(_get(s, 'data')), 'library': v_cell(_get(s, 'library'))}


def v_msg(m):
    if m is None or m is MISSING:
        return m
    return {'_': 'message', 'info': v_info(_get(m, 'info')), 'init': v_init(_get(m, 'init')), 'body': v_cell(_get(m, 'body'))}


def v_wrapper(kind, o):
    if kind == 'StateInit':
        return v_init(o)
    if kind == 'CurrencyCollection':
        return v_cc(o)
    if kind == 'ExtraCurrencyCollection':
        return v_ecc(o)
    if kind == 'WalletV3Data':
        return {'_': 'wallet_v3_data', 'seqno': _get(o, 'seqno'), 'wallet_id': _get(o, 'wallet_id'),
                'public_key': v_hex(_get(o, 'public_key'))}
    if kind == 'WalletV4Data':
        return {'_': 'wallet_v4_data', 'seqno': _get(o, 'seqno'), 'wallet_id': _get(o, 'wallet_id'),
                'public_key': v_hex(_get(o, 'public_key')), 'plugins': v_cell(_get(o, 'plugins'))}
    if kind == 'HighloadWalletData':
        q = _get(o, 'old_queries')
        if q is None:
            q = {}
        if isinstance(q, dict):
            q = [[k, None if q[k] is None else {'_': 'wallet_message', 'send_mode': _get(q[k], 'send_mode'),
                                                'message': v_msg(_get(q[k], 'message'))}] for k in sorted(q)]
        return {'_': 'highload_wallet_data', 'wallet_id': _get(o, 'wallet_id'), 'last_cleaned': _get(o, 'last_cleaned'),
                'public_key': v_hex(_get(o, 'public_key')), 'old_queries': q}
    if kind == 'NftItemData':
        return {'_': 'nft_item_data', 'index': _get(o, 'index'), 'collection_address': v_addr(_get(o, 'collection_address')),
                'owner_address': v_addr(_get(o, 'owner_address')), 'content': v_cell(_get(o, 'content'))}
    if kind == 'HashUpdate':
        return {'_': 'update_hashes', 'old_hash': v_hex(_get(o, 'old_hash')), 'new_hash': v_hex(_get(o, 'new_hash'))}
    raise ValueError(kind)


# --------------------------------------------------------------------------------------------------
# the checks

ADDR_FIELDS = ('src', 'dest', 'collection_address', 'owner_address')


def _sigpath(p):
    """field path as a root-cause bucket: no indices, nothing below a cell (code.bits -> code), address fields cut at
    the address (src.workchain_id -> src) except for the anycast part (src.anycast)"""
    p = re.sub(r'\[[^\]]*\]', '', p).rstrip('.')
    p = re.sub(r'\.(bits|refs|special)(\..*)?$', '', p)
    toks = p.split('.')
    for i, t in enumerate(toks):
        if t in ADDR_FIELDS:
            toks = toks[:i + 1] + (['anycast'] if toks[i + 1:i + 2] == ['anycast'] else [])
            break
    return '.'.join(toks) or 'value'


def _res_of(e):
    s = str(e).lower()
    if 'overflow' in s and 'ref' in s:
        return 'refs-overflow'
    if 'overflow' in s:
        return 'bits-overflow'
    return exc_sig(e)


def _where(e):
    """coarse location of a DecodeError: the record path in front of the message"""
    parts = str(e).split(': ')
    keep = [p for p in parts[:-1] if re.fullmatch(r'[\w.^\[\]]+', p)]
    return '/'.join(keep[:3]) or 'top'


def _select(fails):
    ignore = {x.strip() for x in os.environ.get('VERIF_IGNORE_SIG', '').split(',') if x.strip()}
    fails = [f for f in fails if f.signature not in ignore]
    seen, out = set(), []
    for f in fails:
        if f.signature not in seen:
            seen.add(f.signature)
            out.append(f)
    if not out:
        return None
    known = load_known('C15')
    for f in out:
        if f.signature not in known:
            return f
    return out[0]


def _short(v, n=300):
    s = repr(v)
    return s if len(s) <= n else s[:n] + '…'


def _at(v, path):
    """the sub-value at a diff path (for the detail text)"""
    cur = v
    for tok in re.findall(r'[^.\[\]]+', path):
        try:
            cur = cur[int(tok)] if isinstance(cur, list) else cur[tok]
        except (KeyError, IndexError, ValueError, TypeError):
            return '<absent>'
    return cur


def _parse_results(deser, to_value, encodings, prefix):
    """clause C over several encodings. encodings: list of (label, library cell, reference value).
    label 'own' = the library's own cell, otherwise a placement name. Returns Fails; an effect seen in every encoding
    gets a placement-free signature."""
    seen = []                      # (label, kind, key, detail)
    for label, cell, ref in encodings:
        ok, obj = call(lambda: deser(cell.begin_parse()))
        if not ok:
            seen.append((label, 'raises', exc_sig(obj), f'raised {obj!r}'))
            continue
        got = to_value(obj)
        d = R.diff(got, ref)
        if d is not None:
            seen.append((label, 'differs', _sigpath(d), f'{d}: parsed {_short(_at(got, d))} != expected {_short(_at(ref, d))}'))
    fails = []
    labels = [e[0] for e in encodings]
    for kind, key in sorted({(k, key) for _, k, key, _ in seen}):
        hit = [(l, det) for l, k, ky, det in seen if k == kind and ky == key]
        if len(hit) == len(labels) and len(labels) > 1 or labels == ['own']:
            fails.append(Fail(f'{prefix}deserialize-{kind}/{key}', f'in every encoding ({", ".join(labels)}): {hit[0][1]}'))
        else:
            for l, det in hit:
                where = 'own' if l == 'own' else f'foreign-placement/{l}'
                fails.append(Fail(f'{prefix}deserialize-{kind}/{where}/{key}', f'{l}: {det}'))
    return fails


def _msg_failures(case):
    from pytoniq_core.tlb.transaction import MessageAny
    from harness.gen.dag import lib_from_rcell
    msg = case['msg']
    valid = valid_placements(msg)
    if not valid:
        return []                                   # no layout exists: the statement promises nothing
    fails = []
    obj = lib_msg(msg)
    # A
    ok, cell = call(obj.serialize)
    decoded = None
    own = None
    if not ok:
        g = greedy(msg)
        cls = pname(*g).replace('-body', '+body') + ('' if g not in valid else '/although-it-fits')
        fails.append(Fail(f'serialize-raises/{_res_of(cell)}/{cls}',
                          f'MessageAny.serialize raised {cell!r}; valid placements: '
                          f'{", ".join(sorted(pname(*p) for p in valid))}; sizes (hdr bits, hdr refs, init bits, init refs, '
                          f'body bits, body refs) = {sizes(msg)}'))
        cell = None
    else:
        # B
        try:
            rc = R.rcell_of(cell)
            full = R.from_cell(M.MessageAny, rc)
            decoded = R.strip_either(full)
            own = (None if full['init'] is None else full['init']['either'], full['body']['either'])
        except R.DecodeError as e:
            fails.append(Fail(f'decode-fails/{_where(e)}', f'the serialised cell is not a Message Any: {e}'))
        except AttributeError as e:
            fails.append(Fail('serialize-result-not-a-cell', repr(e)))
            cell = None
        if decoded is not None:
            d = R.diff(decoded, msg)
            if d is not None:
                fails.append(Fail(f'decode-differs/{_sigpath(d)}',
                                  f'{d}: the cell holds {_short(_at(decoded, d))}, the message has {_short(_at(msg, d))} '
                                  f'(placement {pname(*own)})'))
    # C
    encs = []
    if cell is not None:
        encs.append(('own', cell, decoded if decoded is not None else msg))
    for p in sorted(valid, key=lambda p: pname(*p)):
        if p == own and decoded is not None and R.diff(decoded, msg) is None:
            continue                                # identical content and placement to the own cell
        encs.append((pname(*p), lib_from_rcell(valid[p]), msg))
    fails.extend(_parse_results(MessageAny.deserialize, v_msg, encs, ''))
    return fails


def check_message(case):
    return _select(_msg_failures(case))


def _wrapper_failures(case):
    from harness.gen.dag import lib_from_rcell
    kind, v = case['kind'], case['v']
    t = WRAPPERS[kind][0]
    tag = 'highload' if kind == 'HighloadWalletData' else kind.lower()
    try:
        ref_cell = R.to_cell(t, v)
    except R.ModelError as e:
        if e.kind == 'domain':
            raise ValueError(f'case outside the value domain: {e}')
        return []
    logical = R.strip_either(v)
    fails = []
    ok, obj = call(lib_wrapper, kind, v)
    if not ok:
        return [Fail(f'{tag}/constructor-raises/{exc_sig(obj)}', repr(obj))]
    ok, cell = call(obj.serialize)
    decoded = None
    if not ok:
        fails.append(Fail(f'{tag}/serialize-raises/{_res_of(cell)}', f'{kind}.serialize raised {cell!r}'))
        cell = None
    else:
        try:
            decoded = R.strip_either(R.from_cell(t, R.rcell_of(cell)))
        except R.DecodeError as e:
            fails.append(Fail(f'{tag}/decode-fails/{_where(e)}', f'the serialised cell is not a {kind}: {e}'))
        except AttributeError as e:
            fails.append(Fail(f'{tag}/serialize-result-not-a-cell', repr(e)))
            cell = None
        if decoded is not None:
            d = R.diff(decoded, logical)
            if d is not None:
                if kind == 'HighloadWalletData' and _sigpath(d) == 'old_queries' and decoded['old_queries'] == []:
                    fails.append(Fail('highload/old_queries-ignored',
                                      f'{len(logical["old_queries"])} old queries given, the serialised cell holds an '
                                      f'empty dictionary'))
                else:
                    fails.append(Fail(f'{tag}/decode-differs/{_sigpath(d)}',
                                      f'{d}: the cell holds {_short(_at(decoded, d))}, the value has {_short(_at(logical, d))}'))
    cls = lib_class(kind)
    encs = []
    if cell is not None:
        encs.append(('own', cell, decoded if decoded is not None else logical))
    same = decoded is not None and R.diff(decoded, logical) is None and R.rcell_of(cell).repr_hash() == ref_cell.repr_hash()
    if not same:
        encs.append(('reference-encoding', lib_from_rcell(ref_cell), logical))
    for f in _parse_results(cls.deserialize, lambda o: v_wrapper(kind, o), encs, tag + '/'):
        if kind == 'HighloadWalletData' and f.signature.endswith('/old_queries') and 'parsed None' in f.detail:
            f = Fail('highload/old_queries-not-parsed', f.detail)
        fails.append(f)
    return fails


def check_wrapper(case):
    return _select(_wrapper_failures(case))


# --------------------------------------------------------------------------------------------------
# generators

def _body_near(ch, cb, cr):
    """body sizes around an inline capacity (cb bits, cr refs); clipped to what a cell can hold"""
    r = ch.int(0, 9)
    if r < 6:
        nb = cb + ch.choice([-1, 0, 1, 0, 1])
    elif r < 7:
        nb = ch.choice([0, 1, 1023, 1022])
    elif r < 8:
        nb = ch.int(0, 64)
    else:
        nb = ch.int(0, 1023)
    r = ch.int(0, 9)
    if r < 6:
        nr = cr + ch.choice([-1, 0, 1, 0])
    elif r < 8:
        nr = ch.choice([0, 4, 0, 1])
    else:
        nr = ch.int(0, 4)
    return min(max(nb, 0), 1023), min(max(nr, 0), 4)


def _mk_body(ch, nb, nr):
    return {'bits': ch.bits(nb), 'refs': [R.gen_cell(ch, ch.choice([0, 0, 1])) for _ in range(nr)], 'special': False}


def gen_message(ch):
    if ch.int(0, 11) == 0:
        info = _near_full_info(ch, ch.int(1003, 1023), ch.choice([0, 1]))
    else:
        info = R.generate(INFO_STD, ch, budget=2)
    init = R.generate(M.StateInit, ch, budget=2) if ch.choice([0, 1, 1]) else None
    msg = {'_': 'message', 'info': info, 'init': init, 'body': None}
    hb, hr, ib, ir, _, _ = sizes(dict(msg, body={'bits': '', 'refs': []}))
    if init is None:
        target_inline = False
    else:
        fits = body_capacity(hb, hr, ib, ir, True, True)
        target_inline = fits[0] >= 0 and fits[1] >= 0
        if target_inline and ch.int(0, 4) == 0:
            target_inline = False                      # sizes around the OTHER placement's capacity as well
    cb, cr = body_capacity(hb, hr, ib, ir, init is not None, target_inline)
    nb, nr = _body_near(ch, cb, cr)
    msg['body'] = _mk_body(ch, nb, nr)
    return {'msg': msg}


@st.composite
def st_message(draw):
    return gen_message(R.HypChooser(draw))


def strat_message(tier):
    return st_message()


_HASH = bytes.fromhex


def _grid_info(ch, kind, anycast, extra):
    def addr(any_):
        return {'_': 'addr_std', 'anycast': ({'_': 'anycast_info', 'depth': (d := ch.choice([1, 5, 30])),
                                              'rewrite_pfx': ch.bits(d)} if any_ else None),
                'workchain_id': ch.choice([0, -1, -128, 127]), 'address': R.Bytes(32).make(ch, 0, None)}

    def ext():
        n = ch.choice([0, 1, 8, 511, ch.int(0, 511)])
        return ch.choice([{'_': 'addr_none'}, {'_': 'addr_extern', 'len': n, 'external_address': ch.bits(n)}])
    amount = lambda: ch.choice([0, 1, (1 << (8 * ch.int(1, 15))) - 1, (1 << 120) - 1, ch.int(0, (1 << 120) - 1)])
    ecc = {'_': 'extra_currencies', 'dict': sorted([[k, v] for k, v in
                                                   {R.gen_uint(ch, 32): R.VarU(32).make(ch, 0, None) for _ in range(extra)}.items()])}
    if kind == 'int_msg_info':
        return {'_': kind, 'ihr_disabled': ch.bool(), 'bounce': ch.bool(), 'bounced': ch.bool(), 'src': addr(anycast),
                'dest': addr(anycast and ch.bool()), 'value': {'_': 'currencies', 'grams': amount(), 'other': ecc},
                'ihr_fee': amount(), 'fwd_fee': amount(), 'created_lt': R.gen_uint(ch, 64), 'created_at': R.gen_uint(ch, 32)}
    if kind == 'ext_in_msg_info':
        return {'_': kind, 'src': ext(), 'dest': addr(anycast), 'import_fee': amount()}
    return {'_': kind, 'src': addr(anycast), 'dest': ext(), 'created_lt': R.gen_uint(ch, 64), 'created_at': R.gen_uint(ch, 32)}


INIT_SHAPES = [None, '', 'Ss', 'C', 'sD', 'CL', 'SDL', 'CDL', 'SsCDL']      # S split_depth s special C code D data L library


def _grid_init(ch, shape):
    if shape is None:
        return None
    cell = lambda: R.gen_cell(ch, 1)
    return {'_': 'StateInit', 'split_depth': ch.choice([0, 1, 31, 16]) if 'S' in shape else None,
            'special': {'_': 'tick_tock', 'tick': ch.bool(), 'tock': ch.bool()} if 's' in shape else None,
            'code': cell() if 'C' in shape else None, 'data': cell() if 'D' in shape else None,
            'library': cell() if 'L' in shape else None}


DELTAS = ('-1', '0', '+1', 'min', 'max')


def _near_full_info(ch, hb, extra=0):
    """an internal header of exactly hb bits (1003..1023): both addresses with anycast, amounts sized to fit.
    int_msg_info = 4 + 2 x (2+1+5+depth+8+256) + (4+8a+1) + (4+8b) + (4+8c) + 64 + 32 = 657 + d1 + d2 + 8(a+b+c)"""
    need = hb - 657
    k = ch.choice([k for k in range(0, 46) if 2 <= need - 8 * k <= 60])
    dsum = need - 8 * k
    d1 = ch.int(max(1, dsum - 30), min(30, dsum - 1))
    a = ch.int(max(0, k - 30), min(15, k))
    b = ch.int(max(0, k - a - 15), min(15, k - a))

    def addr(d):
        return {'_': 'addr_std', 'anycast': {'_': 'anycast_info', 'depth': d, 'rewrite_pfx': ch.bits(d)},
                'workchain_id': ch.choice([0, -1, -128, 127]), 'address': R.Bytes(32).make(ch, 0, None)}

    def amount(n):
        return 0 if n == 0 else ch.choice([(1 << (8 * n)) - 1, 1 << (8 * n - 8), ch.int(1 << (8 * n - 8), (1 << (8 * n)) - 1)])
    ecc = sorted([k_, v] for k_, v in {R.gen_uint(ch, 32): R.VarU(32).make(ch, 0, None) for _ in range(extra)}.items())
    return {'_': 'int_msg_info', 'ihr_disabled': ch.bool(), 'bounce': ch.bool(), 'bounced': ch.bool(),
            'src': addr(d1), 'dest': addr(dsum - d1),
            'value': {'_': 'currencies', 'grams': amount(a), 'other': {'_': 'extra_currencies', 'dict': ecc}},
            'ihr_fee': amount(b), 'fwd_fee': amount(k - a - b), 'created_lt': R.gen_uint(ch, 64),
            'created_at': R.gen_uint(ch, 32)}


def enum_near_full(tier):
    """headers that leave 0..20 bits: the init / body Either bits themselves are at the capacity boundary"""
    for rep in range(1 if tier == 'quick' else 4):
        for hb in range(1003, 1024):
            for shape in (None, '', 'Ss', 'CDL', 'SsCDL'):
                for body in ('empty', 'bit', 'ref', 'cap', 'cap+1'):
                    ch = R.HashChooser(f'c15-near-full/{rep}/{hb}/{shape}/{body}')
                    info = _near_full_info(ch, hb, ch.choice([0, 0, 1]))
                    init = _grid_init(ch, shape)
                    msg = {'_': 'message', 'info': info, 'init': init, 'body': {'bits': '', 'refs': []}}
                    h, hr, ib, ir, _, _ = sizes(msg)
                    assert h == hb, (h, hb)
                    pi, _ = greedy(msg)
                    cb, cr = body_capacity(h, hr, ib, ir, init is not None, pi == 'left')
                    nb, nr = {'empty': (0, 0), 'bit': (1, 0), 'ref': (0, 1), 'cap': (cb, max(cr, 0)), 'cap+1': (cb + 1, 0)}[body]
                    msg['body'] = _mk_body(ch, min(max(nb, 0), 1023), min(max(nr, 0), 4))
                    yield {'msg': msg}


def enum_grid(tier):
    reps = 1 if tier == 'quick' else 4
    for rep in range(reps):
        for kind in KINDS:
            for extra in ((0, 1) if kind == 'int_msg_info' else (0,)):
                for shape in INIT_SHAPES:
                    for target in (('inline', 'ref') if shape is not None else ('none',)):
                        for db in DELTAS:
                            for dr in DELTAS:
                                label = f'{rep}/{kind}/{extra}/{shape}/{target}/{db}/{dr}'
                                ch = R.HashChooser('c15-grid/' + label)
                                anycast = ch.int(0, 3) == 0
                                extra_n = extra and ch.choice([1, 1, 2, 3])
                                info = _grid_info(ch, kind, anycast, extra_n)
                                init = _grid_init(ch, shape)
                                msg = {'_': 'message', 'info': info, 'init': init, 'body': {'bits': '', 'refs': []}}
                                hb, hr, ib, ir, _, _ = sizes(msg)
                                cb, cr = body_capacity(hb, hr, ib, ir, init is not None, target == 'inline')
                                nb = {'-1': cb - 1, '0': cb, '+1': cb + 1, 'min': 0, 'max': 1023}[db]
                                nr = {'-1': cr - 1, '0': cr, '+1': cr + 1, 'min': 0, 'max': 4}[dr]
                                msg['body'] = _mk_body(ch, min(max(nb, 0), 1023), min(max(nr, 0), 4))
                                yield {'msg': msg}


def gen_wrapper(ch, kind=None):
    kind = kind or ch.choice(sorted(WRAPPERS))
    return {'kind': kind, 'v': R.generate(WRAPPERS[kind][1], ch, budget=3)}


@st.composite
def st_wrapper(draw):
    return gen_wrapper(R.HypChooser(draw))


def strat_wrapper(tier):
    return st_wrapper()


def enum_wrappers(tier):
    leaf = lambda s: {'bits': s, 'refs': [], 'special': False}
    # every subset of the five optional state-init parts, with minimal and maximal field values
    for mask in range(32):
        for hi in (0, 1):
            yield {'kind': 'StateInit', 'v': {
                '_': 'StateInit', 'split_depth': (31 if hi else 0) if mask & 1 else None,
                'special': {'_': 'tick_tock', 'tick': bool(hi), 'tock': not hi} if mask & 2 else None,
                'code': leaf('1' * (1023 if hi else 0)) if mask & 4 else None,
                'data': {'bits': '0', 'refs': [leaf('1')] * (4 if hi else 1), 'special': False} if mask & 8 else None,
                'library': leaf('10') if mask & 16 else None}}
    # grams of every byte length, with and without extra currencies of every byte length
    for k in range(0, 16):
        for g in sorted({0 if k == 0 else 1 << (8 * k - 8), (1 << (8 * k)) - 1, 1 << max(8 * k - 1, 0)}):
            for d in ([], [[0, 0]], [[1, (1 << (8 * (2 * k + 1))) - 1], [(1 << 32) - 1, 1 << (8 * 2 * k)]]):
                yield {'kind': 'CurrencyCollection', 'v': {'_': 'currencies', 'grams': g,
                                                           'other': {'_': 'extra_currencies', 'dict': d}}}
    for n in (1, 2, 3, 5, 8):
        ch = R.HashChooser(f'c15-ecc/{n}')
        keys = sorted({R.gen_uint(ch, 32) for _ in range(n)})
        yield {'kind': 'ExtraCurrencyCollection', 'v': {'_': 'extra_currencies',
                                                        'dict': [[k, R.VarU(32).make(ch, 0, None)] for k in keys]}}
    for kind in sorted(WRAPPERS):
        for i in range(6 if tier == 'quick' else 40):
            yield gen_wrapper(R.HashChooser(f'c15-wrap/{kind}/{i}'), kind)
        for mode in ('min', 'max'):
            try:
                yield gen_wrapper(R.FixedChooser(mode), kind)
            except R.ModelError:
                pass


def _has_optional(v):
    if isinstance(v, dict):
        if set(v) >= {'bits', 'refs'}:
            return True
        return any(_has_optional(x) for k, x in v.items() if k != '_')
    if isinstance(v, list):
        return len(v) > 0
    return False


def classify_wrapper(case):
    kind, v = case['kind'], case['v']
    out = ['kind=' + kind]
    if kind == 'StateInit':
        out.append('subset=' + (''.join(c for c, k in zip('SsCDL', ('split_depth', 'special', 'code', 'data', 'library'))
                                        if v[k] is not None) or '-'))
    elif kind == 'CurrencyCollection':
        out.append(f'grams-bytes={(v["grams"].bit_length() + 7) // 8}')
        out.append(f'extra-currencies={len(v["other"]["dict"])}')
    elif kind == 'ExtraCurrencyCollection':
        out.append(f'extra-currencies={min(len(v["dict"]), 4)}')
    elif kind == 'HighloadWalletData':
        out.append(f'old_queries={len(v["old_queries"])}')
    elif kind == 'WalletV4Data':
        out.append('plugins=' + ('absent' if v['plugins'] is None else 'present'))
    elif kind == 'NftItemData':
        out.append('owner=' + v['owner_address']['_'] + ('+anycast' if v['owner_address'].get('anycast') else ''))
    return out


def nontrivial_wrapper(case):
    if case['kind'] in ('WalletV3Data', 'HashUpdate'):
        return any(isinstance(x, int) and x >= (1 << 31) for x in case['v'].values()) or case['kind'] == 'HashUpdate'
    return _has_optional(case['v'])


SUBCHECKS = [
    Sub('message-grid', check_message, enum=enum_grid, classify=classify_msg, nontrivial=nontrivial_msg, shards=(16, 32),
        note='header kind x extra currencies x init shape x target init placement x body size at capacity -1/0/+1/min/max '
             '(bits) x the same for refs'),
    Sub('message-near-full-header', check_message, enum=enum_near_full, classify=classify_msg, nontrivial=nontrivial_msg,
        shards=(8, 16), note='internal headers of exactly 1003..1023 bits (two anycast addresses, sized amounts) x init '
                             'shape x body empty / 1 bit / 1 ref / capacity / capacity+1: the Maybe and Either bits '
                             'themselves sit at the capacity boundary; includes unrepresentable messages (vacuous)'),
    Sub('message-random', check_message, strategy=strat_message, classify=classify_msg, nontrivial=nontrivial_msg,
        n=(2000, 50000), shards=(16, 48)),
    Sub('wrappers-grid', check_wrapper, enum=enum_wrappers, classify=classify_wrapper, nontrivial=nontrivial_wrapper,
        shards=(8, 16), note='all 32 state-init subsets x min/max fields, Grams of every byte length x extra currencies, '
                             'hash-chosen values of every wrapper'),
    Sub('wrappers-random', check_wrapper, strategy=strat_wrapper, classify=classify_wrapper, nontrivial=nontrivial_wrapper,
        n=(800, 20000), shards=(8, 32)),
]
