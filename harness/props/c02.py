"""
C02 — exotic cells: level masks, per-level hashes/depths, Merkle pruning invariance.

Oracle 1 (model): harness/ref/refcell.py — for every node: level_mask.mask, get_hash(i), get_depth(i), i=0..3; construction
through Builder(type_=t) / Cell(bits, refs, t) and through parsing a reference-encoded BoC must not raise.
Oracle 2 (metamorphic, model-free): X' = X with node t replaced by the pruned branch of t of level d (level(t) < d <= 3),
built from the LIBRARY's own get_hash/get_depth of t. For every ancestor E of t and level j with
j + maxm(E) < d  (maxm(E) = max over paths E->t of the number of Merkle cells on the path, E included)
get_hash(j) and get_depth(j) of E are unchanged.  (A Merkle cell's own hash legitimately changes when the pruning
level equals its Merkle depth: it commits to the child's level-0 hash in its data, which is what stays fixed.)
Not asserted: rejection of spec-invalid exotic cells.
"""
from hypothesis import strategies as st
from harness.core import Sub, Fail, call, exc_sig
from harness.gen import dag
from harness.ref import refcell as rc, refboc

RULE = ('case = exotic DAG spec (ordinary / derived pruned / raw pruned masks 1..7 / library / Merkle proof / Merkle update '
        'nodes, bottom-up with sharing) + route; metamorphic cases add a target node and a pruning level. '
        'non-trivial = contains a cell with mask >= 2 or a mask with a gap (2,4,5,6) or Merkle nesting >= 2; '
        'distinct = distinct case')
ASSUMPTIONS = ['harness/ref/refcell.py transcription of DataCell.cpp level/hash rules (validated on the pinned main-net block; '
               'levels 2-3 cross-checked by the model-free pruning relation)', 'hashlib.sha256']


def cmp_node(r, l, what):
    if l.level_mask.mask != r.mask():
        return Fail(f'mask-differs/type{r.type}', f'{what}: lib {l.level_mask.mask} ref {r.mask()}')
    for i in range(4):
        ok, v = call(l.get_hash, i)
        if not ok:
            return Fail(f'get_hash-raises/type{r.type}', f'{what}: level {i}: {exc_sig(v)} {v!r}')
        if v != r.H(i):
            return Fail(f'get_hash-differs/type{r.type}/mask{r.mask()}', f'{what}: level {i}: {v.hex()} vs {r.H(i).hex()}')
        ok, v = call(l.get_depth, i)
        if not ok:
            return Fail(f'get_depth-raises/type{r.type}', f'{what}: level {i}: {exc_sig(v)} {v!r}')
        if v != r.D(i):
            return Fail(f'get_depth-differs/type{r.type}/mask{r.mask()}', f'{what}: level {i}: {v} vs {r.D(i)}')
    if l.hash != r.repr_hash():
        return Fail(f'hash-differs/type{r.type}', f'{what}: .hash {l.hash.hex()} vs representation hash {r.repr_hash().hex()}')
    return None


def check_model(case):
    from pytoniq_core.boc.cell import Cell
    cells = dag.build_ref(case['spec'])
    route = case.get('route', 'builder')
    try:
        lib = dag.lib_from_ref(cells, route)
    except Exception as e:
        masks = sorted({c.mask() for c in cells})
        return Fail(f'construction-raises/{type(e).__name__}:{str(e)[:40]}', f'{exc_sig(e)} route={route} masks present={masks}')
    for k, (r, l) in enumerate(zip(cells, lib)):
        f = cmp_node(r, l, f'{route} node {k}')
        if f:
            return f
        if l.type_ != r.type:
            return Fail('type-differs', f'node {k}')
    # history: derived builders / slices / serialisations of inner nodes are used; the cells stay what they were
    dag.disturb(lib)
    for k, (r, l) in enumerate(zip(cells, lib)):
        f = cmp_node(r, l, f'{route} node {k} after derived objects were used')
        if f:
            return Fail(f.signature + '/after-history', f.detail)
    # copy() keeps type and hashes
    ok, cp = call(lib[-1].copy)
    if not ok:
        return Fail('copy-raises', f'{exc_sig(cp)}')
    f = cmp_node(cells[-1], cp, 'copy of root')
    if f:
        return f
    # ... and so does a cell taken back from a slice of it: an exotic cell stays the exotic cell it was (type, mask, hashes)
    from pytoniq_core.boc.slice import Slice
    n = len(cells)
    for k in sorted({n - 1, 0, n // 2, max(0, n - 2)}):
        r, l = cells[k], lib[k]
        for name, thunk in (('begin_parse.to_cell', lambda: l.begin_parse().to_cell()),
                            ('to_slice.to_cell', lambda: l.to_slice().to_cell()),
                            ('Slice.from_cell.to_cell', lambda: Slice.from_cell(l).to_cell()),
                            ('begin_parse.copy.to_cell', lambda: l.begin_parse().copy().to_cell()),
                            ('copy', lambda: l.copy())):
            ok, d = call(thunk)
            if not ok:
                return Fail(f'derive-raises/{name}/type{r.type}', f'{exc_sig(d)}: {d!r}')
            if d.type_ != r.type:
                return Fail(f'derived/type-lost/{name}/type{r.type}', f'node {k}: type_ {d.type_} instead of {r.type}')
            f = cmp_node(r, d, f'{name} of node {k}')
            if f:
                return Fail('derived/' + f.signature + '/' + name, f.detail)
    # the mask a cell REPORTS is also the one its serialisation carries (bits 5..7 of d1): the library's bag of the root is read
    # by the independent strict decoder, which recomputes every cell's mask from its kind and children
    ok, own = call(lib[-1].to_boc)
    if ok:
        try:
            h = refboc.decode_strict(bytes(own))
            if h['root_cells'][0].repr_hash() != cells[-1].repr_hash():
                return Fail('serialised/root-hash-differs', f'route={route}')
        except refboc.RefBocError as e:
            import re
            return Fail('serialised/nonconforming/' + re.sub(r'[0-9]+', '#', str(e))[:50], f'route={route}: {e}')
    # parse a reference-encoded BoC of the root (every other case: with the hashes of all cells stored in the bag)
    nn = rc.count_distinct(cells[-1])
    boc = refboc.encode([cells[-1]], has_crc=True, with_hashes=set(range(nn)) if len(case['spec']) % 2 else ())
    ok, parsed = call(Cell.one_from_boc, boc)
    if not ok:
        return Fail(f'parse-raises/{type(parsed).__name__}:{str(parsed)[:40]}', f'{exc_sig(parsed)} boc={boc.hex()[:300]}')
    stack = [(cells[-1], parsed)]
    seen = set()
    while stack:
        r, l = stack.pop()
        if id(r) in seen:
            continue
        seen.add(id(r))
        if l.type_ != r.type or l.bits.to01() != r.bits or len(l.refs) != len(r.refs):
            return Fail('parsed/structure-differs', f'type {l.type_} vs {r.type}')
        f = cmp_node(r, l, 'parsed')
        if f:
            return f
        stack.extend(zip(r.refs, l.refs))
    return None


def check_twin_bag(case):
    """one bag holding an exotic cell AND an ordinary cell with exactly its bits and children (both orders, as children of one
    root and as two roots): each comes back as what it was - kind, mask, hashes"""
    from pytoniq_core.boc.cell import Cell
    leafs = [rc.RCell('1011', []), rc.RCell('0', [])]
    kind = case['kind']
    if kind == 'library':
        ex = rc.library_ref(b'\x42' * 32)
    elif kind == 'mproof':
        ex = rc.merkle_proof(leafs[0])
    elif kind == 'mupdate':
        ex = rc.merkle_update(leafs[0], leafs[1])
    else:
        n = bin(case['mask']).count('1')
        ex = rc.pruned_raw(case['mask'], [bytes([i + 1]) * 32 for i in range(n)], [i for i in range(n)])
    twin = rc.RCell(ex.bits, ex.refs, False)
    pair = [ex, twin] if case['first'] == 'exotic' else [twin, ex]
    bags = [('children-of-one-root', refboc.encode([rc.RCell('1', pair, False)], has_crc=True), lambda roots: roots[0].refs),
            ('two-roots', refboc.encode(pair, has_idx=True), lambda roots: roots)]
    for name, boc, pick in bags:
        ok, roots = call(Cell.from_boc, boc)
        if not ok:
            return Fail(f'twin-bag/parse-raises/{kind}/{type(roots).__name__}', f'{name}: {exc_sig(roots)}: {roots!r}')
        got = list(pick(roots))
        if len(got) != 2:
            return Fail(f'twin-bag/shape/{kind}', f'{name}: {len(got)} cells')
        for r, l in zip(pair, got):
            if l.type_ != r.type:
                return Fail(f'twin-bag/type-differs/{kind}', f'{name}, {case["first"]} first: a cell of type {r.type} came back as type {l.type_}')
            f = cmp_node(r, l, f'{name}, {case["first"]} first')
            if f:
                return Fail('twin-bag/' + f.signature, f.detail)
    return None


def enum_twin_bags(tier):
    for first in ('exotic', 'ordinary'):
        for kind in ('library', 'mproof', 'mupdate'):
            yield {'kind': kind, 'first': first}
        for m in range(1, 8):
            yield {'kind': 'pruned', 'mask': m, 'first': first}


# -- metamorphic ------------------------------------------------------------------------------------------

def _lib_build(spec, replace=None):
    """build library cells for spec (kinds o / P / l / mp / mu only) using ONLY library facilities;
    replace = (t, d): node t is replaced by its pruned branch of level d built from the library's own hashes"""
    from pytoniq_core.boc.builder import Builder
    import hashlib
    out = []
    for k, node in enumerate(spec):
        kind = node['k']
        if kind == 'o':
            b = Builder().store_bits(dag.node_bits(node))
            for i in node['r']:
                b.store_ref(out[i])
            c = b.end_cell()
        elif kind == 'P':
            n = bin(node['m']).count('1')
            seed = bytes.fromhex(node['s'])
            data = bytes([1, node['m']]) + b''.join(hashlib.sha256(seed + bytes([j])).digest() for j in range(n)) + \
                b''.join((node['d'][j % len(node['d'])]).to_bytes(2, 'big') for j in range(n))
            c = Builder(type_=1).store_bytes(data).end_cell()
        elif kind == 'l':
            c = Builder(type_=2).store_bytes(bytes([2]) + hashlib.sha256(bytes.fromhex(node['s'])).digest()).end_cell()
        elif kind == 'mp':
            ch = out[node['r']]
            c = Builder(type_=3).store_bytes(bytes([3]) + ch.get_hash(0) + ch.get_depth(0).to_bytes(2, 'big')).store_ref(ch).end_cell()
        elif kind == 'mu':
            a, b2 = out[node['r'][0]], out[node['r'][1]]
            c = Builder(type_=4).store_bytes(bytes([4]) + a.get_hash(0) + b2.get_hash(0) + a.get_depth(0).to_bytes(2, 'big') +
                                             b2.get_depth(0).to_bytes(2, 'big')).store_ref(a).store_ref(b2).end_cell()
        else:
            raise ValueError(kind)
        if replace is not None and k == replace[0]:
            t, d = replace
            m = c.level_mask.mask
            sig = [0] + [i + 1 for i in range(3) if (m >> i) & 1]
            data = bytes([1, m | (1 << (d - 1))]) + b''.join(c.get_hash(i) for i in sig) + \
                b''.join(c.get_depth(i).to_bytes(2, 'big') for i in sig)
            c = Builder(type_=1).store_bytes(data).end_cell()
        out.append(c)
    return out


def _children(node):
    k = node['k']
    if k == 'o':
        return node['r']
    if k == 'mp':
        return [node['r']]
    if k == 'mu':
        return node['r']
    return []


def check_meta(case):
    spec, t = case['spec'], case['t']
    try:
        X = _lib_build(spec)
    except Exception as e:
        return Fail(f'construction-raises/{type(e).__name__}:{str(e)[:40]}', f'{exc_sig(e)} (building X)')
    lvl = X[t].level_mask.mask.bit_length()
    if lvl >= 3:
        return None  # cannot be pruned further (counted by classify as 'unprunable')
    d = lvl + 1 + case['x'] % (3 - lvl)
    try:
        Y = _lib_build(spec, (t, d))
    except Exception as e:
        return Fail(f'construction-raises/{type(e).__name__}:{str(e)[:40]}', f'{exc_sig(e)} (building X\' with node {t} pruned at level {d})')
    # maxm(E): -1 if E does not reach t
    maxm = [-1] * len(spec)
    maxm[t] = 0
    for k in range(t + 1, len(spec)):
        best = -1
        for c in _children(spec[k]):
            if maxm[c] >= 0:
                best = max(best, maxm[c])
        if best >= 0:
            maxm[k] = best + (1 if spec[k]['k'] in ('mp', 'mu') else 0)
    checked = 0
    for k in range(t + 1, len(spec)):
        if maxm[k] < 0:
            # not an ancestor: must be completely unchanged
            if X[k].hash != Y[k].hash:
                return Fail('metamorphic/unrelated-cell-changed', f'node {k}')
            continue
        for j in range(4):
            if j + maxm[k] < d:
                checked += 1
                if X[k].get_hash(j) != Y[k].get_hash(j):
                    return Fail(f'metamorphic/hash-changed-by-pruning/anc-type{spec[k]["k"]}',
                                f'node {k} level {j}: pruning node {t} at level {d} (maxm={maxm[k]}) changed get_hash')
                if X[k].get_depth(j) != Y[k].get_depth(j):
                    return Fail(f'metamorphic/depth-changed-by-pruning/anc-type{spec[k]["k"]}',
                                f'node {k} level {j}: pruning node {t} at level {d} (maxm={maxm[k]}) changed get_depth')
    # the pruned branch itself carries the hashes
    for j in range(d):
        if X[t].get_hash(j) != Y[t].get_hash(j) or X[t].get_depth(j) != Y[t].get_depth(j):
            return Fail('metamorphic/pruned-branch-does-not-carry-hash', f'level {j} d={d}')
    return None


@st.composite
def st_meta(draw):
    """tree with a guaranteed ancestor chain above the target: bottom part random (o/P/l/mp/mu), then a chain of
    ancestors each ordinary (extra random children) or Merkle."""
    n0 = draw(st.integers(1, 8))
    spec = []
    for k in range(n0):
        kinds = ['o', 'o', 'o', 'P', 'l'] + (['mp', 'mu'] if k else [])
        kind = draw(st.sampled_from(kinds))
        spec.append(_mk_node(draw, kind, k))
    t = draw(st.integers(0, n0 - 1))
    top = t
    for _ in range(draw(st.integers(1, 6))):
        k = len(spec)
        kind = draw(st.sampled_from(['o', 'o', 'mp', 'mu']))
        if kind == 'o':
            others = draw(st.lists(st.integers(0, k - 1), min_size=0, max_size=3))
            pos = draw(st.integers(0, len(others)))
            refs = others[:pos] + [top] + others[pos:]
            spec.append({'k': 'o', 'b': draw(dag.st_bits(64)), 'r': refs})
        elif kind == 'mp':
            spec.append({'k': 'mp', 'r': top})
        else:
            o = draw(st.integers(0, k - 1))
            spec.append({'k': 'mu', 'r': [top, o] if draw(st.booleans()) else [o, top]})
        top = k
    return {'spec': spec, 't': t, 'x': draw(st.integers(0, 2))}


def _mk_node(draw, kind, k):
    if kind == 'o':
        refs = draw(st.lists(st.integers(0, k - 1), min_size=0, max_size=4)) if k else []
        return {'k': 'o', 'b': draw(dag.st_bits(64)), 'r': refs}
    if kind == 'P':
        return {'k': 'P', 'm': draw(st.integers(1, 7)), 's': '%08x' % draw(st.integers(0, 2 ** 32 - 1)),
                'd': draw(st.lists(st.sampled_from([0, 1, 2, 255, 256, 900]), min_size=1, max_size=3))}
    if kind == 'l':
        return {'k': 'l', 's': '%08x' % draw(st.integers(0, 2 ** 32 - 1))}
    if kind == 'mp':
        return {'k': 'mp', 'r': draw(st.integers(0, k - 1))}
    return {'k': 'mu', 'r': [draw(st.integers(0, k - 1)), draw(st.integers(0, k - 1))]}


def enum_pruned_parents(tier):
    depths = [[0], [1, 2, 3], [255, 256, 900]]
    for m1 in range(1, 8):
        for m2 in range(0, 8):
            for dv in range(3):
                base = [{'k': 'P', 'm': m1, 's': '%08x' % (m1 * 16 + m2), 'd': depths[dv]}]
                if m2 == 0:
                    base.append({'k': 'o', 'b': [m1 + dv, 2, m1], 'r': []})
                else:
                    base.append({'k': 'P', 'm': m2, 's': '%08x' % (m1 * 16 + m2 + 1000), 'd': depths[(dv + 1) % 3]})
                for parent in range(7):
                    spec = list(base)
                    if parent == 0:
                        spec.append({'k': 'o', 'b': [9, 2, 1], 'r': [0]})
                    elif parent == 1:
                        spec.append({'k': 'o', 'b': [0, 0, 0], 'r': [0, 1]})
                    elif parent == 2:
                        spec.append({'k': 'o', 'b': [1023, 2, 3], 'r': [1, 0, 1, 0]})
                    elif parent == 3:
                        spec.append({'k': 'mp', 'r': 0})
                    elif parent == 4:
                        spec.append({'k': 'mu', 'r': [0, 1]})
                    elif parent == 5:
                        spec += [{'k': 'o', 'b': [7, 2, 5], 'r': [0, 1]}, {'k': 'mp', 'r': 2}, {'k': 'mp', 'r': 3}]
                    else:
                        spec += [{'k': 'mu', 'r': [1, 0]}, {'k': 'o', 'b': [3, 1, 0], 'r': [2, 0]}, {'k': 'mu', 'r': [3, 2]}]
                    for route in ('builder', 'tvm'):
                        yield {'spec': spec, 'route': route}


def strat_model(tier):
    return st.fixed_dictionaries({'spec': dag.st_exotic_dag(max_nodes=18 if tier == 'quick' else 40),
                                  'route': st.sampled_from(['builder', 'tvm', 'plain'])})


def _masks(case):
    try:
        return [c.mask() for c in dag.build_ref(case['spec'])]
    except Exception:
        return []


def _merkle_nesting(spec):
    depth = [0] * len(spec)
    for k, nd in enumerate(spec):
        ch = _children(nd) if nd['k'] != 'p' else [nd['of']]
        d = max([depth[c] for c in ch], default=0)
        depth[k] = d + (1 if nd['k'] in ('mp', 'mu') else 0)
    return max(depth, default=0)


def classify(case):
    ms = set(_masks(case))
    for m in sorted(ms):
        yield f'has-mask={m}'
    yield f'merkle-nesting={min(_merkle_nesting(case["spec"]), 3)}'
    for k in sorted({n['k'] for n in case['spec']}):
        yield 'kind:' + k
    if 'route' in case:
        yield 'route=' + case['route']


def nt(case):
    ms = set(_masks(case))
    return any(m >= 2 for m in ms) or _merkle_nesting(case['spec']) >= 2


SUBCHECKS = [
    Sub('pruned-masks-x-parents', check_model, enum=enum_pruned_parents, classify=classify, nontrivial=nt, shards=(16, 16),
        exhaustive=True, note='every raw pruned mask 1..7 x sibling mask 0..7 x 3 depth patterns x 7 parent shapes x 2 routes'),
    Sub('exotic-beside-ordinary-twin-in-one-bag', check_twin_bag, enum=enum_twin_bags, shards=(2, 2), exhaustive=True,
        classify=lambda c: ['kind=' + c['kind']], nontrivial=lambda c: True,
        note='library / Merkle proof / Merkle update / pruned (masks 1..7) cell and the ordinary cell with the same bits and children in one bag'),
    Sub('exotic-model', check_model, strategy=strat_model, classify=classify, nontrivial=nt, n=(1500, 40000), shards=(16, 32)),
    Sub('pruning-metamorphic', check_meta, strategy=lambda tier: st_meta(), classify=classify, nontrivial=nt,
        n=(1500, 40000), shards=(16, 32)),
]
