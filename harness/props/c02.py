"""
C02 — exotic cells: level masks, per-level hashes/depths, Merkle pruning invariance.

Oracle 1 (model): harness/ref/refcell.py — for every node: level_mask.mask, get_hash(i), get_depth(i), i=0..3; construction
through Builder(type_=t) / Cell(bits, refs, t) and through parsing a reference-encoded BoC must not raise.
Oracle 2 (metamorphic, model-free): X' = X with node t replaced by the pruned branch of t of level d (level(t) < d <= 3),
built from the LIBRARY's own get_hash/get_depth of t. For every ancestor E of t and level j with
j + maxm(E) < d  (maxm(E) = max over paths E->t of the number of Merkle cells on the path, E included)
get_hash(j) and get_depth(j) of E are unchanged.  (A Merkle cell's own hash legitimately changes when the pruning
level equals its Merkle depth: it commits to the child's level-0 hash in its data, which is what stays fixed.)
Histories / forms of use added to both oracles (a cell is a value - how the caller got hold of it does not matter):
 * route 'reused' (model) / mode 'reuse-*' (metamorphic): the cell is ended from a Builder that HAS BEEN ENDED BEFORE with other
   contents of the same type, bit count and reference count (one bit flipped, one child replaced), then corrected - in place
   through the live `builder.bits` / `builder.refs`, by slice assignment, through the setters, by pop + store_ref, by storing
   more, by changing `builder.type_` - and ended again (end_cell / to_cell). In the metamorphic check this is literally the
   operation of the statement: the builders of X are kept, the child is replaced by its pruned branch in them, they are ended again;
   the result must equal the freshly built X' in every observable, and the cells ended first must still hold their old children.
 * generic Python copies: copy.copy / copy.deepcopy / pickle (protocol 0 / 2 / default / highest) of a cell, of a list holding it, of a
   builder / slice holding it must report the same mask / hashes / depths on the whole copied subtree, and an ordinary cell and a
   Merkle proof BUILT ON the copy must have the specified hashes (copies that raise are not judged: not promised by the statement).
 * depth limit: grid 'depth-limit-x-merkle' - pruned branches whose stored depth at ONE significant level (or all) is 1021..1023
   and small elsewhere, real chains of 1003..1023 cells with the bottom pruned so that
   the virtual depth is exactly 1022 / 1023, under 19 ancestor shapes of ordinary / Merkle
   proof / Merkle update cells; every case in which the reference says all depths at all levels are <= 1023 must construct and
   parse (the virtual level-0 depth of a Merkle cell's child does not count for the Merkle cell). The metamorphic generator also
   draws stored depths 1016 / 1021 / 1022 (cases the reference calls too deep are skipped).
Not asserted: rejection of spec-invalid exotic cells; depth 1024 (legal in the C++ node, refused by this library by design);
that copy / pickle succeed.
"""
from hypothesis import strategies as st
from harness.core import Sub, Fail, call, exc_sig
from harness.gen import dag
from harness.ref import refcell as rc, refboc

RULE = ('case = exotic DAG spec (ordinary / derived pruned / raw pruned masks 1..7 / library / Merkle proof / Merkle update '
        'nodes, bottom-up with sharing) + route (fresh Builder / Cell(TvmBitarray) / Cell(bitarray) / Builder ended before with '
        'other contents and corrected in one of 7 ways, chosen per node by hist); every case also takes generic Python copies '
        '(copy, deepcopy, pickle) of two nodes and builds parents on them; metamorphic cases add a target node, a pruning level '
        'and a mode (fresh builders / the builders of X edited and ended again); depth-limit grid: stored depths 1021..1023 at one '
        'level x 19 ancestor shapes, kept when the reference says every depth <= 1023 (non-trivial there = some depth is exactly '
        '1023). '
        'non-trivial = contains a cell with mask >= 2 or a mask with a gap (2,4,5,6) or Merkle nesting >= 2; '
        'distinct = distinct case')
ASSUMPTIONS = ['harness/ref/refcell.py transcription of DataCell.cpp level/hash rules (validated on the pinned main-net block; '
               'levels 2-3 cross-checked by the model-free pruning relation)', 'hashlib.sha256']


def cmp_node(r, l, what):
    if l.level_mask.mask != r.mask():
        return Fail(f'mask-differs/type{r.type}', f'{what}: lib {l.level_mask.mask} ref {r.mask()}')
    for i in range(4):
        ok, v = call(l.get_hash, i)
        if not ok:
            return Fail(f'get_hash-raises/type{r.type}', f'{what}: level {i}: {exc_sig(v)} {v!r}')
        if v != r.H(i):
            return Fail(f'get_hash-differs/type{r.type}/mask{r.mask()}', f'{what}: level {i}: {v.hex()} vs {r.H(i).hex()}')
        ok, v = call(l.get_depth, i)
        if not ok:
            return Fail(f'get_depth-raises/type{r.type}', f'{what}: level {i}: {exc_sig(v)} {v!r}')
        if v != r.D(i):
            return Fail(f'get_depth-differs/type{r.type}/mask{r.mask()}', f'{what}: level {i}: {v} vs {r.D(i)}')
    if l.hash != r.repr_hash():
        return Fail(f'hash-differs/type{r.type}', f'{what}: .hash {l.hash.hex()} vs representation hash {r.repr_hash().hex()}')
    return None


HISTS = ('inplace', 'inplace-slice', 'setter', 'grow', 'pop-push', 'retype', 'twice')


def _flip(bits, exotic, sel):
    """bits with one bit flipped (an exotic cell keeps its type and mask bytes) and the position, or (bits, None)"""
    lo = 16 if exotic and len(bits) > 16 else 0
    if len(bits) <= lo:
        return bits, None
    p = (lo, (lo + len(bits)) // 2, len(bits) - 1)[sel % 3]
    return bits[:p] + ('1' if bits[p] == '0' else '0') + bits[p + 1:], p


def lib_reused(cells, h):
    """list of RCell (bottom-up) -> library cells, each ended from a Builder that has a HISTORY: it was filled and ended
    before (other contents of the same type / number of bits / number of references, or a part of the contents, or another
    type), then brought to the contents of the reference cell in the way HISTS[(h + k) % 7] names, and ended again.
    What a builder was ended with before is irrelevant for what it is ended with now."""
    from pytoniq_core.boc.builder import Builder
    from pytoniq_core.boc.tvm_bitarray import TvmBitarray
    from bitarray import bitarray
    out, idx, hashes = [], {}, []
    for k, c in enumerate(cells):
        refs = [out[idx[id(r)]] for r in c.refs]
        t, bits = c.type, c.bits
        hist = HISTS[(h + k) % len(HISTS)]
        if hist == 'retype' and t == -1:
            hist = 'inplace'
        dbits, p = _flip(bits, t != -1, h + k)
        drefs, di = list(refs), None
        if refs:
            di = len(refs) - 1 if hist == 'pop-push' else (h + k) % len(refs)
            want = c.refs[di].repr_hash()
            other = [j for j in range(len(out)) if hashes[j] != want]
            if other:
                drefs[di] = out[other[(h + k) % len(other)]]
            else:
                di = None
        b = Builder(type_=t)
        if hist == 'grow':
            cut, nr = len(bits) // 2, len(refs) // 2
            b.store_bits(bits[:cut])
            for r in refs[:nr]:
                b.store_ref(r)
            call(b.end_cell)
            b.store_bits(bits[cut:])
            for r in refs[nr:]:
                b.store_ref(r)
            lc = b.end_cell()
        elif hist == 'twice':
            b.store_bits(bits)
            for r in refs:
                b.store_ref(r)
            call(b.to_cell)
            lc = b.end_cell()
        elif hist == 'retype':
            b = Builder()
            b.store_bits(bits)
            for r in refs:
                b.store_ref(r)
            call(b.end_cell)                     # the ordinary cell with these bits and children
            b.type_ = t
            lc = b.end_cell()
        else:
            b.store_bits(dbits)
            for r in drefs:
                b.store_ref(r)
            call(b.end_cell)                     # the decoy (whether it is a valid cell does not matter)
            if hist == 'inplace':
                if p is not None:
                    b.bits[p] = int(bits[p])
                if di is not None:
                    b.refs[di] = refs[di]
                lc = b.end_cell()
            elif hist == 'inplace-slice':
                if p is not None:
                    lo = p - p % 16
                    b.bits[lo:lo + 16] = bitarray(bits[lo:lo + 16])
                b.refs[:] = refs
                lc = b.to_cell()
            elif hist == 'setter':
                b.bits = TvmBitarray(1023, bits)
                b.refs = list(refs)
                lc = b.end_cell()
            else:  # pop-push: the last child is taken out and the right one stored; the bits are corrected in place
                if p is not None:
                    b.bits[p] = int(bits[p])
                if refs:
                    b.refs.pop()
                    b.store_ref(refs[-1])
                lc = b.end_cell()
        idx[id(c)] = len(out)
        out.append(lc)
        hashes.append(c.repr_hash())
    return out


def _copies(l, sel, full=True):
    """generic Python ways to get 'the same cell again': (name, thunk). full: copy.copy, copy.deepcopy, a deep copy of one of three
    containers holding the cell (list / builder / slice) and one pickle protocol (0, 2, default, highest), rotating with sel;
    otherwise one deep copy and one pickle"""
    import copy
    import pickle
    from pytoniq_core.boc.builder import Builder
    p = (0, 2, pickle.DEFAULT_PROTOCOL, pickle.HIGHEST_PROTOCOL)[sel % 4]
    held = [('deepcopy-of-list', lambda: copy.deepcopy([l, l])[1]),
            ('deepcopy-of-builder', lambda: copy.deepcopy(Builder().store_ref(l)).end_cell().refs[0]),
            ('deepcopy-of-slice', lambda: copy.deepcopy(Builder().store_ref(l).end_cell().begin_parse()).load_ref())][sel % 3]
    pick = (f'pickle-proto{p}', lambda: pickle.loads(pickle.dumps(l, protocol=p)))
    if not full:
        return [('copy.deepcopy', lambda: copy.deepcopy(l)) if sel % 2 else held, pick]
    return [('copy.copy', lambda: copy.copy(l)), ('copy.deepcopy', lambda: copy.deepcopy(l)), held, pick]


def check_copies(r, l, sel, what, full=True):
    """a copy of a cell made by copy / deepcopy / pickle is that cell: whole subtree reports the specified values, and
    cells built on top of the copy hash what the specification says (they read the copy's per-level hashes AND depths)"""
    from pytoniq_core.boc.builder import Builder
    if max(r.D(i) for i in range(4)) > 60:
        return None                               # deepcopy / pickle recurse per level: Python's limit, not the library's
    par = rc.RCell('1', [r], False)
    mpr = rc.merkle_proof(r)
    for name, thunk in _copies(l, sel, full):
        ok, d = call(thunk)
        if not ok:
            continue                              # not promised by the statement
        fam = 'pickle' if name.startswith('pickle') else 'deepcopy' if 'deepcopy' in name else 'copy'
        stack, seen = [(r, d)], set()
        while stack:
            a, b = stack.pop()
            if id(a) in seen:
                continue
            seen.add(id(a))
            if getattr(b, 'type_', None) != a.type or len(b.refs) != len(a.refs) or b.bits.to01() != a.bits:
                return Fail(f'copied/structure-differs/{fam}', f'{what}: {name}')
            f = cmp_node(a, b, f'{name} of {what}')
            if f:
                return Fail(f'copied/{f.signature.split("/")[0]}/{fam}', f.detail)
            stack.extend(zip(a.refs, b.refs))
        for pr, mk in ((par, lambda: Builder().store_bits('1').store_ref(d).end_cell()),
                       (mpr, lambda: Builder(type_=3).store_bits(mpr.bits).store_ref(d).end_cell())):
            if rc.spec_invalid(pr) is not None:
                continue
            ok, lp = call(mk)
            if not ok:
                return Fail(f'built-on-copy/construction-raises/{fam}', f'{what}: {name}: type {pr.type} cell: {exc_sig(lp)}: {lp!r}')
            f = cmp_node(pr, lp, f'type {pr.type} cell built on {name} of {what}')
            if f:
                return Fail(f'built-on-copy/{f.signature.split("/")[0]}/{fam}', f.detail)
    return None


def check_model(case):
    from pytoniq_core.boc.cell import Cell
    cells = dag.build_ref(case['spec'])
    route = case.get('route', 'builder')
    try:
        lib = lib_reused(cells, case.get('hist', 0)) if route == 'reused' else dag.lib_from_ref(cells, route)
    except Exception as e:
        masks = sorted({c.mask() for c in cells})
        return Fail(f'construction-raises/{type(e).__name__}:{str(e)[:40]}', f'{exc_sig(e)} route={route} hist={case.get("hist")} masks present={masks}')
    for k, (r, l) in enumerate(zip(cells, lib)):
        f = cmp_node(r, l, f'{route} node {k}')
        if f and route == 'reused':
            hist = HISTS[(case.get('hist', 0) + k) % len(HISTS)]
            return Fail(f.signature.split('/')[0] + '/builder-ended-before', f'history {hist!r} of the builder: ' + f.detail)
        if f:
            return f
        if l.type_ != r.type:
            return Fail('type-differs', f'node {k}')
    # history: derived builders / slices / serialisations of inner nodes are used; the cells stay what they were
    dag.disturb(lib)
    for k, (r, l) in enumerate(zip(cells, lib)):
        f = cmp_node(r, l, f'{route} node {k} after derived objects were used')
        if f:
            return Fail(f.signature + '/after-history', f.detail)
    # copy() keeps type and hashes
    ok, cp = call(lib[-1].copy)
    if not ok:
        return Fail('copy-raises', f'{exc_sig(cp)}')
    f = cmp_node(cells[-1], cp, 'copy of root')
    if f:
        return f
    # ... and so does a cell taken back from a slice of it: an exotic cell stays the exotic cell it was (type, mask, hashes)
    from pytoniq_core.boc.slice import Slice
    n = len(cells)
    for k in sorted({n - 1, 0, n // 2, max(0, n - 2)}):
        r, l = cells[k], lib[k]
        for name, thunk in (('begin_parse.to_cell', lambda: l.begin_parse().to_cell()),
                            ('to_slice.to_cell', lambda: l.to_slice().to_cell()),
                            ('Slice.from_cell.to_cell', lambda: Slice.from_cell(l).to_cell()),
                            ('begin_parse.copy.to_cell', lambda: l.begin_parse().copy().to_cell()),
                            ('copy', lambda: l.copy())):
            ok, d = call(thunk)
            if not ok:
                return Fail(f'derive-raises/{name}/type{r.type}', f'{exc_sig(d)}: {d!r}')
            if d.type_ != r.type:
                return Fail(f'derived/type-lost/{name}/type{r.type}', f'node {k}: type_ {d.type_} instead of {r.type}')
            f = cmp_node(r, d, f'{name} of node {k}')
            if f:
                return Fail('derived/' + f.signature + '/' + name, f.detail)
    # ... and a copy made by Python's own protocols (copy, deepcopy, pickle - caches, multiprocessing) is that cell
    for k in sorted({n - 1, n // 2}):
        f = check_copies(cells[k], lib[k], len(case['spec']) + case.get('hist', 0) + k, f'node {k} ({route})', full=k == n - 1)
        if f:
            return f
    # the mask a cell REPORTS is also the one its serialisation carries (bits 5..7 of d1): the library's bag of the root is read
    # by the independent strict decoder, which recomputes every cell's mask from its kind and children
    ok, own = call(lib[-1].to_boc)
    if ok:
        try:
            h = refboc.decode_strict(bytes(own))
            if h['root_cells'][0].repr_hash() != cells[-1].repr_hash():
                return Fail('serialised/root-hash-differs', f'route={route}')
        except refboc.RefBocError as e:
            import re
            return Fail('serialised/nonconforming/' + re.sub(r'[0-9]+', '#', str(e))[:50], f'route={route}: {e}')
    # parse a reference-encoded BoC of the root (every other case: with the hashes of all cells stored in the bag)
    nn = rc.count_distinct(cells[-1])
    boc = refboc.encode([cells[-1]], has_crc=True, with_hashes=set(range(nn)) if len(case['spec']) % 2 else ())
    ok, parsed = call(Cell.one_from_boc, boc)
    if not ok:
        return Fail(f'parse-raises/{type(parsed).__name__}:{str(parsed)[:40]}', f'{exc_sig(parsed)} boc={boc.hex()[:300]}')
    stack = [(cells[-1], parsed)]
    seen = set()
    while stack:
        r, l = stack.pop()
        if id(r) in seen:
            continue
        seen.add(id(r))
        if l.type_ != r.type or l.bits.to01() != r.bits or len(l.refs) != len(r.refs):
            return Fail('parsed/structure-differs', f'type {l.type_} vs {r.type}')
        f = cmp_node(r, l, 'parsed')
        if f:
            return f
        stack.extend(zip(r.refs, l.refs))
    return None


def check_twin_bag(case):
    """one bag holding an exotic cell AND an ordinary cell with exactly its bits and children (both orders, as children of one
    root and as two roots): each comes back as what it was - kind, mask, hashes"""
    from pytoniq_core.boc.cell import Cell
    leafs = [rc.RCell('1011', []), rc.RCell('0', [])]
    kind = case['kind']
    if kind == 'library':
        ex = rc.library_ref(b'\x42' * 32)
    elif kind == 'mproof':
        ex = rc.merkle_proof(leafs[0])
    elif kind == 'mupdate':
        ex = rc.merkle_update(leafs[0], leafs[1])
    else:
        n = bin(case['mask']).count('1')
        ex = rc.pruned_raw(case['mask'], [bytes([i + 1]) * 32 for i in range(n)], [i for i in range(n)])
    twin = rc.RCell(ex.bits, ex.refs, False)
    pair = [ex, twin] if case['first'] == 'exotic' else [twin, ex]
    bags = [('children-of-one-root', refboc.encode([rc.RCell('1', pair, False)], has_crc=True), lambda roots: roots[0].refs),
            ('two-roots', refboc.encode(pair, has_idx=True), lambda roots: roots)]
    for name, boc, pick in bags:
        ok, roots = call(Cell.from_boc, boc)
        if not ok:
            return Fail(f'twin-bag/parse-raises/{kind}/{type(roots).__name__}', f'{name}: {exc_sig(roots)}: {roots!r}')
        got = list(pick(roots))
        if len(got) != 2:
            return Fail(f'twin-bag/shape/{kind}', f'{name}: {len(got)} cells')
        for r, l in zip(pair, got):
            if l.type_ != r.type:
                return Fail(f'twin-bag/type-differs/{kind}', f'{name}, {case["first"]} first: a cell of type {r.type} came back as type {l.type_}')
            f = cmp_node(r, l, f'{name}, {case["first"]} first')
            if f:
                return Fail('twin-bag/' + f.signature, f.detail)
    return None


def enum_twin_bags(tier):
    for first in ('exotic', 'ordinary'):
        for kind in ('library', 'mproof', 'mupdate'):
            yield {'kind': kind, 'first': first}
        for m in range(1, 8):
            yield {'kind': 'pruned', 'mask': m, 'first': first}


# -- metamorphic ------------------------------------------------------------------------------------------

def _content(node, out):
    """(cell type, data as a bit string, list of built children) of a spec node (kinds o / P / l / mp / mu), the Merkle data
    taken from the LIBRARY's own get_hash / get_depth of the children"""
    import hashlib
    kind = node['k']
    if kind == 'o':
        return -1, dag.node_bits(node), [out[i] for i in node['r']]
    if kind == 'P':
        n = bin(node['m']).count('1')
        seed = bytes.fromhex(node['s'])
        data = bytes([1, node['m']]) + b''.join(hashlib.sha256(seed + bytes([j])).digest() for j in range(n)) + \
            b''.join((node['d'][j % len(node['d'])]).to_bytes(2, 'big') for j in range(n))
        return 1, rc.bytes_to_bits(data), []
    if kind == 'l':
        return 2, rc.bytes_to_bits(bytes([2]) + hashlib.sha256(bytes.fromhex(node['s'])).digest()), []
    if kind == 'mp':
        ch = out[node['r']]
        return 3, rc.bytes_to_bits(bytes([3]) + ch.get_hash(0) + ch.get_depth(0).to_bytes(2, 'big')), [ch]
    if kind == 'mu':
        a, b2 = out[node['r'][0]], out[node['r'][1]]
        return 4, rc.bytes_to_bits(bytes([4]) + a.get_hash(0) + b2.get_hash(0) + a.get_depth(0).to_bytes(2, 'big') +
                                   b2.get_depth(0).to_bytes(2, 'big')), [a, b2]
    raise ValueError(kind)


def _pruned_of(c, d):
    """the pruned branch of level d standing for library cell c, from the library's own hashes and depths"""
    from pytoniq_core.boc.builder import Builder
    m = c.level_mask.mask
    sig = [0] + [i + 1 for i in range(3) if (m >> i) & 1]
    data = bytes([1, m | (1 << (d - 1))]) + b''.join(c.get_hash(i) for i in sig) + \
        b''.join(c.get_depth(i).to_bytes(2, 'big') for i in sig)
    return Builder(type_=1).store_bytes(data).end_cell()


def _lib_build(spec, replace=None, keep=None):
    """build library cells for spec (kinds o / P / l / mp / mu only) using ONLY library facilities;
    replace = (t, d): node t is replaced by its pruned branch of level d built from the library's own hashes;
    keep: a list that receives the Builder each node was ended from"""
    from pytoniq_core.boc.builder import Builder
    out = []
    for k, node in enumerate(spec):
        t, bits, ch = _content(node, out)
        b = Builder(type_=t)
        if t == -1:
            b.store_bits(bits)
        else:
            b.store_bytes(rc.bits_to_padded_bytes(bits))
        for r in ch:
            b.store_ref(r)
        c = b.end_cell()
        if keep is not None:
            keep.append(b)
        if replace is not None and k == replace[0]:
            c = _pruned_of(c, replace[1])
        out.append(c)
    return out


def _lib_rebuild(spec, X, builders, t, d, edit):
    """X' from the builders X was ended from: node t becomes its pruned branch of level d, and in the builder of every later node
    the children (and the Merkle data, which name a child hash) are replaced - same type, same number of bits and references -
    and the builder is ended again"""
    from pytoniq_core.boc.tvm_bitarray import TvmBitarray
    from bitarray import bitarray
    Y = []
    for k, node in enumerate(spec):
        if k < t:
            Y.append(X[k])
            continue
        if k == t:
            Y.append(_pruned_of(X[t], d))
            continue
        typ, bits, ch = _content(node, Y)
        b = builders[k]
        if edit == 'reuse-inplace':
            for i, r in enumerate(ch):
                b.refs[i] = r
            if typ != -1:
                b.bits[0:len(bits)] = bitarray(bits)
            Y.append(b.end_cell())
        elif edit == 'reuse-slice':
            b.refs[:] = ch
            b.bits[:] = bitarray(bits)
            Y.append(b.to_cell())
        elif edit == 'reuse-setter':
            b.refs = list(ch)
            b.bits = TvmBitarray(1023, bits)
            Y.append(b.end_cell())
        else:  # reuse-pop-push
            for _ in ch:
                b.refs.pop()
            for r in ch:
                b.store_ref(r)
            if typ != -1:
                b.bits[0:len(bits)] = bitarray(bits)
            Y.append(b.end_cell())
    return Y


def _children(node):
    k = node['k']
    if k == 'o':
        return node['r']
    if k == 'mp':
        return [node['r']]
    if k == 'mu':
        return node['r']
    return []


def _too_deep(spec):
    """the reference says some cell of the spec has a depth above 1023 at some level (the library refuses such trees by design)"""
    try:
        return any(rc.spec_invalid(c) is not None for c in dag.build_ref(spec))
    except Exception:
        return False


def _same_cell(a, b):
    """None if two library cells agree in every observable of the property, else the name of the first that differs"""
    if a.type_ != b.type_:
        return 'type'
    if a.level_mask.mask != b.level_mask.mask:
        return 'mask'
    if [r.hash for r in a.refs] != [r.hash for r in b.refs]:
        return 'children'
    if a.bits.to01() != b.bits.to01():
        return 'bits'
    for j in range(4):
        if a.get_hash(j) != b.get_hash(j):
            return f'get_hash'
        if a.get_depth(j) != b.get_depth(j):
            return f'get_depth'
    return None if a.hash == b.hash else 'hash'


def check_meta(case):
    spec, t = case['spec'], case['t']
    mode = case.get('mode', 'fresh')
    builders = [] if mode != 'fresh' else None
    try:
        X = _lib_build(spec, keep=builders)
    except Exception as e:
        if _too_deep(spec):
            return None
        return Fail(f'construction-raises/{type(e).__name__}:{str(e)[:40]}', f'{exc_sig(e)} (building X)')
    lvl = X[t].level_mask.mask.bit_length()
    if lvl >= 3:
        return None  # cannot be pruned further (counted by classify as 'unprunable')
    d = lvl + 1 + case['x'] % (3 - lvl)
    try:
        Y = _lib_build(spec, (t, d))
    except Exception as e:
        return Fail(f'construction-raises/{type(e).__name__}:{str(e)[:40]}', f'{exc_sig(e)} (building X\' with node {t} pruned at level {d})')
    if mode != 'fresh':
        # the statement's own operation done on the builders X was ended from: replace the child, end again
        before = [[r.hash for r in c.refs] for c in X]
        try:
            Yr = _lib_rebuild(spec, X, builders, t, d, mode)
        except Exception as e:
            return Fail(f'builder-reuse/construction-raises/{type(e).__name__}:{str(e)[:40]}',
                        f'{exc_sig(e)} ({mode}: node {t} replaced by its pruned branch of level {d} in the builders of X)')
        for k in range(len(spec)):
            w = _same_cell(Yr[k], Y[k])
            if w:
                return Fail(f'builder-reuse/{w}-differs-from-fresh-build',
                            f'{mode}: node {k} ended from the builder node {k} of X was ended from, after node {t} was replaced in it '
                            f'by its pruned branch of level {d}: {w} differs from the same contents ended from a fresh builder '
                            f'(mask {Yr[k].level_mask.mask} vs {Y[k].level_mask.mask})')
        if before != [[r.hash for r in c.refs] for c in X]:
            return Fail('builder-reuse/cell-ended-earlier-changed', f'{mode}: children of a cell of X changed when its builder was edited')
        Y = Yr
    # maxm(E): -1 if E does not reach t
    maxm = [-1] * len(spec)
    maxm[t] = 0
    for k in range(t + 1, len(spec)):
        best = -1
        for c in _children(spec[k]):
            if maxm[c] >= 0:
                best = max(best, maxm[c])
        if best >= 0:
            maxm[k] = best + (1 if spec[k]['k'] in ('mp', 'mu') else 0)
    checked = 0
    for k in range(t + 1, len(spec)):
        if maxm[k] < 0:
            # not an ancestor: must be completely unchanged
            if X[k].hash != Y[k].hash:
                return Fail('metamorphic/unrelated-cell-changed', f'node {k}')
            continue
        for j in range(4):
            if j + maxm[k] < d:
                checked += 1
                if X[k].get_hash(j) != Y[k].get_hash(j):
                    return Fail(f'metamorphic/hash-changed-by-pruning/anc-type{spec[k]["k"]}',
                                f'node {k} level {j}: pruning node {t} at level {d} (maxm={maxm[k]}) changed get_hash')
                if X[k].get_depth(j) != Y[k].get_depth(j):
                    return Fail(f'metamorphic/depth-changed-by-pruning/anc-type{spec[k]["k"]}',
                                f'node {k} level {j}: pruning node {t} at level {d} (maxm={maxm[k]}) changed get_depth')
    # the pruned branch itself carries the hashes
    for j in range(d):
        if X[t].get_hash(j) != Y[t].get_hash(j) or X[t].get_depth(j) != Y[t].get_depth(j):
            return Fail('metamorphic/pruned-branch-does-not-carry-hash', f'level {j} d={d}')
    return None


@st.composite
def st_meta(draw):
    """tree with a guaranteed ancestor chain above the target: bottom part random (o/P/l/mp/mu), then a chain of
    ancestors each ordinary (extra random children) or Merkle."""
    n0 = draw(st.integers(1, 8))
    spec = []
    for k in range(n0):
        kinds = ['o', 'o', 'o', 'P', 'l'] + (['mp', 'mu'] if k else [])
        kind = draw(st.sampled_from(kinds))
        spec.append(_mk_node(draw, kind, k))
    t = draw(st.integers(0, n0 - 1))
    top = t
    for _ in range(draw(st.integers(1, 6))):
        k = len(spec)
        kind = draw(st.sampled_from(['o', 'o', 'mp', 'mu']))
        if kind == 'o':
            others = draw(st.lists(st.integers(0, k - 1), min_size=0, max_size=3))
            pos = draw(st.integers(0, len(others)))
            refs = others[:pos] + [top] + others[pos:]
            spec.append({'k': 'o', 'b': draw(dag.st_bits(64)), 'r': refs})
        elif kind == 'mp':
            spec.append({'k': 'mp', 'r': top})
        else:
            o = draw(st.integers(0, k - 1))
            spec.append({'k': 'mu', 'r': [top, o] if draw(st.booleans()) else [o, top]})
        top = k
    mode = draw(st.sampled_from(['fresh', 'fresh', 'reuse-inplace', 'reuse-inplace', 'reuse-slice', 'reuse-setter', 'reuse-pop-push']))
    return {'spec': spec, 't': t, 'x': draw(st.integers(0, 2)), 'mode': mode}


def _mk_node(draw, kind, k):
    if kind == 'o':
        refs = draw(st.lists(st.integers(0, k - 1), min_size=0, max_size=4)) if k else []
        return {'k': 'o', 'b': draw(dag.st_bits(64)), 'r': refs}
    if kind == 'P':
        return {'k': 'P', 'm': draw(st.integers(1, 7)), 's': '%08x' % draw(st.integers(0, 2 ** 32 - 1)),
                'd': draw(st.lists(st.sampled_from([0, 1, 2, 255, 256, 900, 0, 1, 2, 255, 256, 900, 1016, 1021, 1022]),
                                   min_size=1, max_size=3))}
    if kind == 'l':
        return {'k': 'l', 's': '%08x' % draw(st.integers(0, 2 ** 32 - 1))}
    if kind == 'mp':
        return {'k': 'mp', 'r': draw(st.integers(0, k - 1))}
    return {'k': 'mu', 'r': [draw(st.integers(0, k - 1)), draw(st.integers(0, k - 1))]}


def enum_pruned_parents(tier):
    depths = [[0], [1, 2, 3], [255, 256, 900]]
    for m1 in range(1, 8):
        for m2 in range(0, 8):
            for dv in range(3):
                base = [{'k': 'P', 'm': m1, 's': '%08x' % (m1 * 16 + m2), 'd': depths[dv]}]
                if m2 == 0:
                    base.append({'k': 'o', 'b': [m1 + dv, 2, m1], 'r': []})
                else:
                    base.append({'k': 'P', 'm': m2, 's': '%08x' % (m1 * 16 + m2 + 1000), 'd': depths[(dv + 1) % 3]})
                for parent in range(7):
                    spec = list(base)
                    if parent == 0:
                        spec.append({'k': 'o', 'b': [9, 2, 1], 'r': [0]})
                    elif parent == 1:
                        spec.append({'k': 'o', 'b': [0, 0, 0], 'r': [0, 1]})
                    elif parent == 2:
                        spec.append({'k': 'o', 'b': [1023, 2, 3], 'r': [1, 0, 1, 0]})
                    elif parent == 3:
                        spec.append({'k': 'mp', 'r': 0})
                    elif parent == 4:
                        spec.append({'k': 'mu', 'r': [0, 1]})
                    elif parent == 5:
                        spec += [{'k': 'o', 'b': [7, 2, 5], 'r': [0, 1]}, {'k': 'mp', 'r': 2}, {'k': 'mp', 'r': 3}]
                    else:
                        spec += [{'k': 'mu', 'r': [1, 0]}, {'k': 'o', 'b': [3, 1, 0], 'r': [2, 0]}, {'k': 'mu', 'r': [3, 2]}]
                    for route in ('builder', 'tvm'):
                        yield {'spec': spec, 'route': route}
                    yield {'spec': spec, 'route': 'reused', 'hist': m1 + 2 * m2 + 3 * dv + parent}


DEEP_SHAPES = [('o',), ('o', 'o'), ('o', 'o', 'o'), ('mp',), ('muL',), ('muB',), ('o', 'mp'), ('o2', 'mp'), ('o', 'muR'),
               ('o', 'muB'), ('o', 'o', 'mp'), ('o', 'mp', 'o'), ('o', 'mp', 'mp'), ('o', 'mp', 'o', 'mp'), ('o', 'muL', 'mp'),
               ('mp', 'o', 'mp'), ('o', 'mp', 'mp', 'mp'), ('o', 'mp', 'o', 'o'), ('o', 'muB', 'o', 'muB')]


def _grow(spec, top, sib, shape):
    """append the ancestors named by shape above node `top` (sib = index of an unrelated small cell)"""
    spec = list(spec)
    for op in shape:
        k = len(spec)
        if op == 'o':
            spec.append({'k': 'o', 'b': [5, 2, k], 'r': [top]})
        elif op == 'o2':
            spec.append({'k': 'o', 'b': [0, 0, 0], 'r': [sib, top]})
        elif op == 'mp':
            spec.append({'k': 'mp', 'r': top})
        else:
            spec.append({'k': 'mu', 'r': {'muL': [top, sib], 'muR': [sib, top], 'muB': [top, top]}[op]})
        top = k
    return spec


def _max_depths(spec):
    cells = dag.build_ref(spec)
    return cells, [max(c.D(i) for i in range(4)) for c in cells]


def enum_depth_limit(tier):
    """the largest legal depth at ONE level of a subtree x ancestors that look at other levels (Merkle cells read their children one
    level up; the level 0 depth of the child is the depth of the virtual tree and does not count for them). Kept: every case in
    which the reference finds all depths of all cells at all levels <= 1023 - those must construct and parse."""
    for m in range(1, 8):
        n = bin(m).count('1')
        for hot in list(range(n)) + (['all'] if n > 1 else []):
            for hv in (1021, 1022, 1023):
                d = [hv if hot in (j, 'all') else (0, 3, 7)[j] for j in range(n)]
                base = [{'k': 'P', 'm': m, 's': '%08x' % (m * 4096 + hv), 'd': d}, {'k': 'o', 'b': [3, 1, 0], 'r': []}]
                for si, shape in enumerate(DEEP_SHAPES):
                    spec = _grow(base, 0, 1, shape)
                    cells, _ = _max_depths(spec)
                    if any(rc.spec_invalid(c) is not None for c in cells):
                        continue
                    yield {'spec': spec, 'route': 'builder'}
                    yield {'spec': spec, 'route': ('tvm', 'plain', 'reused')[(si + m + hv) % 3], 'hist': si + m}
    # real trees: a chain of ordinary cells with its bottom part pruned, `above` ordinary cells over the pruned branch so that the
    # virtual depth is exactly 1022 / 1023, then Merkle cells
    for above in (1, 20):
        for total in (1022, 1023):
            chain = [{'k': 'o', 'b': [8, 2, j], 'r': [j - 1] if j else []} for j in range(total - above + 1)]
            spec = chain + [{'k': 'o', 'b': [2, 1, 0], 'r': []}, {'k': 'p', 'of': len(chain) - 1, 'x': 0}]
            for shape in (('o',) * above + ('mp',), ('o',) * above + ('muB', 'o', 'mp')):
                yield {'spec': _grow(spec, len(spec) - 1, len(chain), shape), 'route': 'builder'}


def classify_deep(case):
    cells, md = _max_depths(case['spec'])
    yield 'deepest-level-depth=' + str(max(md))
    for c in cells:
        if c.type in (3, 4):
            yield f'merkle-over-child-with-level0-depth={max(r.D(0) for r in c.refs)}' if max(r.D(0) for r in c.refs) >= 1021 \
                else 'merkle-over-shallower-child'
    yield 'route=' + case['route']
    yield 'nodes=' + ('<=8' if len(cells) <= 8 else '1000+')


def strat_model(tier):
    return st.fixed_dictionaries({'spec': dag.st_exotic_dag(max_nodes=18 if tier == 'quick' else 40),
                                  'route': st.sampled_from(['builder', 'tvm', 'plain', 'reused', 'reused']),
                                  'hist': st.integers(0, 20)})


def _masks(case):
    try:
        return [c.mask() for c in dag.build_ref(case['spec'])]
    except Exception:
        return []


def _merkle_nesting(spec):
    depth = [0] * len(spec)
    for k, nd in enumerate(spec):
        ch = _children(nd) if nd['k'] != 'p' else [nd['of']]
        d = max([depth[c] for c in ch], default=0)
        depth[k] = d + (1 if nd['k'] in ('mp', 'mu') else 0)
    return max(depth, default=0)


def classify(case):
    ms = set(_masks(case))
    for m in sorted(ms):
        yield f'has-mask={m}'
    yield f'merkle-nesting={min(_merkle_nesting(case["spec"]), 3)}'
    for k in sorted({n['k'] for n in case['spec']}):
        yield 'kind:' + k
    if 'route' in case:
        yield 'route=' + case['route']
    if 'mode' in case:
        yield 'mode=' + case['mode']
    if case.get('route') == 'reused':
        for k in range(min(len(case['spec']), len(HISTS))):
            yield 'builder-history=' + HISTS[(case.get('hist', 0) + k) % len(HISTS)]


def nt(case):
    ms = set(_masks(case))
    return any(m >= 2 for m in ms) or _merkle_nesting(case['spec']) >= 2


SUBCHECKS = [
    Sub('pruned-masks-x-parents', check_model, enum=enum_pruned_parents, classify=classify, nontrivial=nt, shards=(16, 16),
        exhaustive=True, note='every raw pruned mask 1..7 x sibling mask 0..7 x 3 depth patterns x 7 parent shapes x 3 routes '
                              '(fresh builder, Cell(TvmBitarray), builders ended before with other contents)'),
    Sub('depth-limit-x-merkle', check_model, enum=enum_depth_limit, classify=classify_deep, shards=(16, 16), exhaustive=True,
        nontrivial=lambda c: max(_max_depths(c['spec'])[1]) == 1023,
        note='pruned masks 1..7 x stored depth 1021..1023 at one significant level (or all) x 19 ancestor shapes (ordinary / Merkle '
             'proof / Merkle update), kept when the reference has every depth <= 1023; + chains of 1022 / 1023 real cells with the '
             'bottom pruned under Merkle cells; non-trivial = some cell has depth exactly 1023 at some level'),
    Sub('exotic-beside-ordinary-twin-in-one-bag', check_twin_bag, enum=enum_twin_bags, shards=(2, 2), exhaustive=True,
        classify=lambda c: ['kind=' + c['kind']], nontrivial=lambda c: True,
        note='library / Merkle proof / Merkle update / pruned (masks 1..7) cell and the ordinary cell with the same bits and children in one bag'),
    Sub('exotic-model', check_model, strategy=strat_model, classify=classify, nontrivial=nt, n=(1500, 40000), shards=(16, 32)),
    Sub('pruning-metamorphic', check_meta, strategy=lambda tier: st_meta(), classify=classify, nontrivial=nt,
        n=(1500, 40000), shards=(16, 32)),
]

# the same generated cases, several at a time, checked by threads that run at the same time (core.run_overlapping): per-call state
# kept in a place two calls share shows only there
SUBCHECKS.append(__import__('harness.core', fromlist=['overlapped']).overlapped(next(s for s in SUBCHECKS if s.name == 'exotic-model'), k=3, n=(40, 1500)))
