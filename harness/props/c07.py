"""C07 — cell capacity, value ranges and read bounds are enforced.

Three families of cases, all plain data:

  builder-programs   case = {'steps': [op, ...]}: a program of Builder.store_* calls interpreted step by step against ONE
                     library Builder and against a model (exact bit string as str, list of reference depths).  Arguments
                     are generated RELATIVE to the remaining capacity (exactly fits / one bit or one reference too many /
                     one fewer / as drawn), filler steps bring the builder to the wanted fill level.  For every step the
                     model says  fits AND value in range => the call MUST succeed and the builder must afterwards hold
                     exactly model bits / references;  otherwise the call MUST raise (any exception type).  After every
                     step len(builder.bits) <= 1023 and len(builder.refs) <= 4, and end_cell() must give a cell with the
                     model's bits and references and depth <= 1023 — or, when a stored child has depth >= 1023, end_cell()
                     must raise (the library enforces depth in Cell.calculate_hashes, i.e. at end_cell(); a raise from
                     the store itself would be accepted too): a cell of depth 1024 must never be produced.
  range-grid         exhaustive: every width 1..256 (store_uint) / 1..257 (store_int) and every length-field width 1..5
                     of store_var_uint / store_var_int (+ store_coins): the first values outside the range on both sides
                     MUST raise, the boundary values inside MUST succeed and write exactly the two's complement /
                     VarUInteger bits — on an empty builder and at several fill levels (incl. the one where the width
                     exactly fits).
  read-bounds(-grid) a slice with r remaining bits and k remaining references obtained by every route (builder cell,
                     builder.to_slice(), parsed BoC, Cell(plain bitarray), Cell(TvmBitarray), Slice.from_cell,
                     Cell.to_slice, child cell, after partial consumption, .copy(), .to_cell().begin_parse(),
                     .to_builder().to_slice()): every CONSUMING read asking for more than remains MUST raise; a read of
                     <= what remains must return exactly the model's data and advance exactly.  The grid does this for
                     every r in 0..1023 (quick: a boundary subset) with every read on a fresh slice; the random
                     sub-check runs sequences of reads on one slice.

What "fits" means (from the library code and TL-B): store_coins / store_var_uint(v, bl) need bl + 8*bytelen(v) bits;
store_address(None) 2 bits, addr_std 267 bits (+ 5 + depth with anycast), addr_extern 11 + len bits; store_maybe_ref /
store_dict 1 bit (+ 1 reference for a cell); store_cell / store_slice the (remaining) bits and (remaining) references;
store_string 8 bits per UTF-8 byte (its `<= 127 bytes` assertion coincides with capacity); store_snake_bytes fits when
the data fits the free whole bytes OR one reference is free.

Out-of-range values generated for composites: coins / var_uint / var_int beyond the length field or negative, addr_std
with a workchain outside int8, ExternalAddress(v, len) with v >= 2**len or len > 511.  The class len == 0 with v != 0
has its own signature ('store/addr_ext:len0/accepted/out-of-range'): the library writes addr_extern len=0 and drops v.

Deliberately NOT asserted: exception types; atomicity of a refused composite store (the statement only promises that no
over-full cell results: after a raise the model re-synchronises from the builder's actual content and only the limits
are checked); where store_snake_bytes cuts the chain (any whole-byte prefix in the current cell is accepted); the
content of snake child cells (C06); widths 0 and > 256/257 of store_uint/store_int; store_bit(2) and other values of
the wrong type; Address objects with a hash part that is not 32 bytes; non-consuming preload_* over-reads; negative
lengths; load_string on bytes that are not UTF-8 and load_address on addr_var / anycast depth 0 or 31 (the library may
refuse these for reasons other than length: no verdict unless the data is too short for every reading);
Slice objects constructed directly from a plain bitarray (only Cell(...) is a documented way in); identity of the
Cell objects returned by reads after a BoC round trip (content compared).
"""
import hashlib
import os

from hypothesis import strategies as st
from harness.core import Sub, Fail, call, exc_sig
from harness.ref import refbits as R

R.selftest()

RULE = ('builder-programs: 1..10 drawn store operations (bit, bool, bits in 4 forms, uint, int, bytes, string, coins, '
        'var_uint, var_int, address none/std/std+anycast/external, ref, maybe_ref, dict, cell, slice of a partly '
        'consumed slice by 4 routes, snake bytes/string, children of depth 1022/1023) each placed relative to the '
        'remaining capacity (exact fit / one too many / one fewer / as drawn) by filler steps, for bits and for '
        'references independently; ~8% of values out of range. range-grid: every width x first values outside and '
        'inside the range x fill levels {0,1,mid,exact-fit}. read-bounds: every route x remaining length r x every '
        'consuming read asking for r, r+1, more. non-trivial = a store at non-zero fill whose end lands within +-1 of a '
        'limit (1022..1024 bits or 3..5 references), or a case containing an over-read; range-grid: non-zero fill. '
        'distinct = distinct case')
ASSUMPTIONS = ['harness/ref/refbits.py (TL-B writer on str, self-tested at import)',
               'Builder.bits.to01() / Builder.refs / Cell.bits.to01() / Cell.refs / Slice.remaining_bits / '
               'Slice.remaining_refs are the trusted observation base',
               'argument objects (cells, slices, chains of depth 1022/1023) are built with Builder.store_bits(str) / '
               'store_ref / end_cell well inside the limits; slices are pre-consumed with load_bits / load_ref inside bounds',
               'depth of a cell = longest reference path (computed by the harness from the case, not read from the library)']

MAXB, MAXR, MAXD = 1023, 4, 1023

# Development aid: env VERIF_IGNORE_SIG='sig1,sig2' makes the listed signatures count as passed.  Signatures listed for
# C07 in known_findings.json are read (never written): a program goes on past a listed store verdict failure so that an
# unlisted failure behind it is still found; a case whose only failures are listed returns the first of them.
IGNORE = frozenset(x.strip() for x in os.environ.get('VERIF_IGNORE_SIG', '').split(',') if x.strip())
_KNOWN = None


def _tolerated(sig):
    global _KNOWN
    if _KNOWN is None:          # configuration, read once per process
        from harness.core import load_known
        _KNOWN = frozenset(load_known('C07'))
    return 'ignore' if sig in IGNORE else 'known' if sig in _KNOWN else None


# --------------------------------------------------------------------------------------------------
# cell specs (plain data):  {'b': '0101', 'r': [spec, ...]}  or  {'chain': d}  (d cells below, one reference each)

def _pruned_bits(d, hi=None):
    """pruned branch, level mask 1: type 0x01, mask 0x01, a 256-bit hash, the depth of the pruned sub-tree (16 bits);
    with hi (a list of further depths): level mask 0b11 / 0b111 - one more hash and one more depth per level, the depth at
    level 0 stays d (a cell above it has one depth PER LEVEL, each of them limited to 1023)"""
    hi = list(hi or [])
    n = 1 + len(hi)
    return R.uint(1, 8) + R.uint((1 << n) - 1, 8) + ''.join(R.uint(0x5A5A5A5A00000000 + d + j, 64) + '01' * 96 for j in range(n)) + \
        ''.join(R.uint(x, 16) for x in [d] + hi)


def spec_bits(spec):
    if 'chain' in spec:
        return R.uint(spec['chain'] % 256, 8)
    if 'pruned' in spec:
        return _pruned_bits(spec['pruned'], spec.get('hi'))
    return spec['b']


def spec_children(spec):
    if 'pruned' in spec:
        return []
    if 'chain' in spec:
        return [{'chain': spec['chain'] - 1}] if spec['chain'] > 0 else []
    return spec['r']


def spec_depth(spec):
    if 'pruned' in spec:
        # an exotic child: its depth at each level is the depth it stores for that level, no chain has to exist; what limits the
        # cell above it is the deepest of them
        return max([spec['pruned']] + list(spec.get('hi') or []))
    if 'chain' in spec:
        return spec['chain']
    return 1 + max(spec_depth(r) for r in spec['r']) if spec['r'] else 0


def _chain(ctx, d):
    from pytoniq_core.boc.builder import Builder
    ch = ctx.setdefault('chain', [])
    while len(ch) <= d:
        n = len(ch)
        b = Builder().store_bits(R.uint(n % 256, 8))
        if n:
            b.store_ref(ch[n - 1])
        ch.append(b.end_cell())
    return ch[d]


def _build(ctx, spec):
    from pytoniq_core.boc.builder import Builder
    if 'chain' in spec:
        return _chain(ctx, spec['chain'])
    if 'pruned' in spec:
        return Builder(type_=1).store_bits(_pruned_bits(spec['pruned'], spec.get('hi'))).end_cell()
    b = Builder().store_bits(spec['b'])
    for r in spec['r']:
        b.store_ref(_build(ctx, r))
    return b.end_cell()


def _walk_depth(cell, memo):
    """longest reference path below `cell`, iterative; memo: id -> (cell, depth), holds the cells (ids stay unique)"""
    stack = [cell]
    while stack:
        c = stack[-1]
        if id(c) in memo:
            stack.pop()
            continue
        if getattr(c, 'type_', -1) == 1:                # pruned branch: the deepest of the depths it stores (one per level)
            b01 = c.bits.to01()
            nlev = bin(int(b01[8:16], 2)).count('1')
            memo[id(c)] = (c, max(int(b01[len(b01) - 16 * (j + 1): len(b01) - 16 * j], 2) for j in range(nlev)))
            stack.pop()
            continue
        pend = [r for r in c.refs if id(r) not in memo]
        if pend:
            stack.extend(pend)
            continue
        memo[id(c)] = (c, 1 + max(memo[id(r)][1] for r in c.refs) if c.refs else 0)
        stack.pop()
    return memo[id(cell)][1]


def _short(x, n=260):
    s = repr(x)
    return s if len(s) <= n else s[:n] + '…'


def _clip(s, n=72):
    return f'{s[:n]}{"…" if len(s) > n else ""}({len(s)} bits)'


# --------------------------------------------------------------------------------------------------
# model of one store (pure, no library)

def _snake_data(step):
    if step['op'] == 'snake_bytes':
        return bytes.fromhex(step['v'])
    return (b'\x00' if step.get('prefix') else b'') + step['v'].encode('utf-8')


def effect(step):
    """(in_range, bits or None, child specs or None, nominal bit size or None) of a non-snake store"""
    k = step['op']
    try:
        if k == 'rebind':
            return True, '', [], 0
        if k in ('bit', 'bool'):
            return True, R.bit(step['v']), [], 1
        if k == 'bits':
            return True, step['v'], [], len(step['v'])
        if k == 'uint':
            return True, R.uint(step['v'], step['w']), [], step['w']
        if k == 'int':
            return True, R.sint(step['v'], step['w']), [], step['w']
        if k == 'bytes':
            b = R.from_bytes(bytes.fromhex(step['v']))
            return True, b, [], len(b)
        if k == 'string':
            b = R.utf8(step['v'])
            return True, b, [], len(b)
        if k == 'coins':
            b = R.coins(step['v'])
            return True, b, [], len(b)
        if k == 'var_uint':
            b = R.var_uint(step['v'], step['bl'])
            return True, b, [], len(b)
        if k == 'var_int':
            b = R.var_int(step['v'], step['bl'])
            return True, b, [], len(b)
        if k == 'addr_none':
            return True, R.addr_none(), [], 2
        if k == 'addr_std':
            any_ = step.get('any')
            b = R.addr_std(step['wc'], bytes.fromhex(step['acc']), tuple(any_) if any_ else None)
            return True, b, [], len(b)
        if k == 'addr_ext':
            b = R.addr_extern(step['v'], step['len'])
            return True, b, [], len(b)
        if k == 'ref':
            return True, '', [step['c']], 0
        if k in ('maybe_ref', 'dict'):
            return (True, '0', [], 1) if step['c'] is None else (True, '1', [step['c']], 1)
        if k == 'cell':
            return True, spec_bits(step['c']), list(spec_children(step['c'])), len(spec_bits(step['c']))
        if k == 'slice':
            b = spec_bits(step['c'])[step['skip']:]
            return True, b, list(spec_children(step['c']))[step['lrefs']:], len(b)
    except ValueError:
        nominal = {'uint': step.get('w'), 'int': step.get('w'), 'addr_std': 267}.get(k)
        return False, None, None, nominal
    raise AssertionError(f'unknown op {k}')


def opclass(step):
    """input class used inside signatures"""
    k = step['op']
    if k in ('maybe_ref', 'dict'):
        return k + (':none' if step['c'] is None else ':cell')
    if k == 'slice':
        return k + (':consumed-refs' if step['lrefs'] else ':consumed-bits' if step['skip'] else ':whole')
    if k == 'addr_std':
        return k + (':anycast' if step.get('any') else '')
    if k == 'bits':
        return k + ':' + step.get('form', 'str')
    if k == 'addr_ext':
        return k + (':len0' if step['len'] == 0 else '')
    return k


def judge(step, used, urefs):
    """model verdict for a store at fill (used bits, urefs references):
    dict(must='ok'|'raise', why, bits, children, snake)"""
    k = step['op']
    if k in ('snake_bytes', 'snake_string'):
        data = _snake_data(step)
        avail = (MAXB - used) // 8
        if len(data) <= avail:
            return {'must': 'ok', 'snake': data, 'spill': False}
        if urefs < MAXR:
            return {'must': 'ok', 'snake': data, 'spill': True}
        return {'must': 'raise', 'why': 'refs-overflow', 'snake': data}
    inr, bits, children, _ = effect(step)
    if not inr:
        return {'must': 'raise', 'why': 'out-of-range'}
    if used + len(bits) > MAXB:
        return {'must': 'raise', 'why': 'bits-overflow'}
    if urefs + len(children) > MAXR:
        return {'must': 'raise', 'why': 'refs-overflow'}
    return {'must': 'ok', 'bits': bits, 'children': children}


def partial_bits(step, left, rleft):
    """bits the CURRENT library leaves behind when it refuses this store (used only to keep the generator's and the
    classifier's fill estimate close to the truth; never used by the oracle)"""
    k = step['op']
    if k in ('coins', 'var_uint', 'var_int'):
        bl, v = (4 if k == 'coins' else step['bl']), step['v']
        if v == 0:
            return 0
        ln = (abs(v).bit_length() + 7) // 8 if k != 'var_int' else ((v if v > 0 else ~v).bit_length() + 8) // 8
        return bl if ln < (1 << bl) and bl <= left else 0
    if k in ('maybe_ref', 'dict') and step['c'] is not None:
        return 1 if left >= 1 else 0
    if k == 'addr_std':
        parts = [2, 1] + ([5, step['any'][0]] if step.get('any') else []) + [8, 256]
        inr = -128 <= step['wc'] <= 127
        done = 0
        for p in parts:
            if p == 8 and not inr:
                break
            if done + p > left:
                break
            done += p
        return done
    if k in ('snake_bytes', 'snake_string'):
        return 8 * (left // 8)
    return 0


def advance(step, used, urefs):
    """(used, urefs, verdict) after the step under the model (+ partial_bits estimate for refused composites)"""
    v = judge(step, used, urefs)
    if v['must'] == 'raise':
        return used + partial_bits(step, MAXB - used, MAXR - urefs), urefs, v
    if 'snake' in v:
        n = len(v['snake'])
        if not v['spill']:
            return used + 8 * n, urefs, v
        return used + 8 * ((MAXB - used) // 8), urefs + 1, v
    return used + len(v['bits']), urefs + len(v['children']), v


# --------------------------------------------------------------------------------------------------
# library side of a store

def _mk_slice(ctx, step):
    """library Slice over spec step['c'] with `skip` bits and `lrefs` references already consumed"""
    from pytoniq_core.boc.cell import Cell
    from pytoniq_core.boc.slice import Slice
    spec, route = step['c'], step.get('route', 'begin_parse')
    kids = [_build(ctx, r) for r in spec_children(spec)]
    if route == 'plain':
        from bitarray import bitarray
        cell = Cell(bitarray(spec_bits(spec)), list(kids))
    else:
        from pytoniq_core.boc.builder import Builder
        b = Builder().store_bits(spec_bits(spec))
        for c in kids:
            b.store_ref(c)
        cell = b.end_cell()
    s = Slice.from_cell(cell) if route == 'from_cell' else cell.begin_parse()
    if step['skip']:
        s.load_bits(step['skip'])
    for _ in range(step['lrefs']):
        s.load_ref()
    if route == 'copy':
        s = s.copy()
    return s, kids[step['lrefs']:]


def _prepare(ctx, step):
    """(argument object, list of cells expected as new references)"""
    k = step['op']
    if k == 'ref':
        c = _build(ctx, step['c'])
        return c, [c]
    if k in ('maybe_ref', 'dict'):
        if step['c'] is None:
            return None, []
        c = _build(ctx, step['c'])
        return c, [c]
    if k == 'cell':
        c = _build(ctx, step['c'])
        return c, list(c.refs)
    if k == 'slice':
        return _mk_slice(ctx, step)
    return None, []


def _do_store(b, step, arg):
    k = step['op']
    if k == 'rebind':
        # the caller swaps the builder's containers for equal copies through the public setters (snapshot / roll-back idiom);
        # every later store and its capacity check concern what the builder holds NOW
        if step['what'] != 'refs':
            b.bits = b.bits.copy()
        if step['what'] != 'bits':
            b.refs = list(b.refs)
        return b
    if k == 'bit':
        f = step.get('form', 'int')
        return b.store_bit(step['v'] if f == 'int' else str(step['v']) if f == 'str' else bool(step['v']))
    if k == 'bool':
        return b.store_bool(bool(step['v']))
    if k == 'bits':
        f, v = step.get('form', 'str'), step['v']
        if f == 'list':
            return b.store_bits([int(c) for c in v])
        if f == 'tuple':
            return b.store_bits(tuple(int(c) for c in v))
        if f == 'gen':
            return b.store_bits(int(c) for c in v)
        if f == 'iter':
            return b.store_bits(iter([int(c) for c in v]))
        if f == 'ba':
            from bitarray import bitarray
            return b.store_bits(bitarray(v))
        if f == 'tvm':
            from pytoniq_core.boc.tvm_bitarray import TvmBitarray
            t = TvmBitarray(1023)
            t.extend(v[:1023])
            if len(v) > 1023:          # a 1024+ bit TvmBitarray cannot be made through its own API: hand over a str
                return b.store_bits(v)
            return b.store_bits(t)
        return b.store_bits(v)
    if k == 'uint':
        return b.store_uint(step['v'], step['w'])
    if k == 'int':
        return b.store_int(step['v'], step['w'])
    if k == 'bytes':
        return b.store_bytes(bytes.fromhex(step['v']))
    if k == 'string':
        return b.store_string(step['v'])
    if k == 'coins':
        return b.store_coins(step['v'])
    if k == 'var_uint':
        return b.store_var_uint(step['v'], step['bl'])
    if k == 'var_int':
        return b.store_var_int(step['v'], step['bl'])
    if k == 'addr_none':
        return b.store_address(None)
    if k == 'addr_std':
        from pytoniq_core.boc.address import Address
        if step.get('via') == 'str':
            return b.store_address(f"{step['wc']}:{step['acc']}")
        a = Address((step['wc'], bytes.fromhex(step['acc'])))
        if step.get('any'):
            a.set_anycast(step['any'][0], step['any'][1])
        return b.store_address(a)
    if k == 'addr_ext':
        from pytoniq_core.boc.address import ExternalAddress
        return b.store_address(ExternalAddress(step['v'], step['len']))
    if k == 'ref':
        return b.store_ref(arg)
    if k == 'maybe_ref':
        return b.store_maybe_ref(arg)
    if k == 'dict':
        return b.store_dict(arg)
    if k == 'cell':
        return b.store_cell(arg)
    if k == 'slice':
        return b.store_slice(arg)
    if k == 'snake_bytes':
        return b.store_snake_bytes(bytes.fromhex(step['v']))
    if k == 'snake_string':
        return b.store_snake_string(step['v'], bool(step.get('prefix')))
    raise AssertionError(k)


def _same_cell(x, y):
    return x is y or (x.bits.to01() == y.bits.to01() and len(x.refs) == len(y.refs))


def check_program(case):
    from pytoniq_core.boc.builder import Builder
    ctx, memo = {}, {}
    b = Builder()
    mbits, mrefs = '', []            # model: bit string, [(cell, depth)]
    first_known = None
    for i, step in enumerate(case['steps']):
        cls = opclass(step)
        used, urefs = len(mbits), len(mrefs)
        v = judge(step, used, urefs)
        arg, new_cells = _prepare(ctx, step)
        where = f'step#{i} at fill {used} bits/{urefs} refs: {_short(step)}'
        ok, e = call(_do_store, b, step, arg)
        gbits, grefs = b.bits.to01(), list(b.refs)
        if len(gbits) > MAXB:
            return Fail(f'invariant/builder-holds-more-than-1023-bits/{cls}', f'{where}: builder holds {len(gbits)} bits')
        if len(grefs) > MAXR:
            return Fail(f'invariant/builder-holds-more-than-4-refs/{cls}', f'{where}: builder holds {len(grefs)} refs')
        if v['must'] == 'raise':
            if ok:
                f = Fail(f'store/{cls}/accepted/{v["why"]}', f'{where}: call returned, builder now {len(gbits)} bits/{len(grefs)} refs')
                t = _tolerated(f.signature)
                if t is None:
                    return f
                if t == 'known' and first_known is None:
                    first_known = f
            # no atomicity promised: re-synchronise the model from the builder
            mbits = gbits
            mrefs = [(c, _walk_depth(c, memo)) for c in grefs]
        else:
            if not ok and step.get('form') in ('gen', 'iter'):
                # a one-shot iterator of bits has no length to check beforehand: refusing it is accepted, storing it wrongly or
                # past the capacity (invariant above) is not; the model follows the builder
                mbits = gbits
                mrefs = [(c, _walk_depth(c, memo)) for c in grefs]
                continue
            if not ok:
                return Fail(f'store/{cls}/refused-though-fits/{exc_sig(e)}', f'{where}: {e!r}')
            if 'snake' in v:
                data = R.from_bytes(v['snake'])
                tail = gbits[len(mbits):]
                nnew = len(grefs) - len(mrefs)
                good = (gbits[:len(mbits)] == mbits and len(tail) % 8 == 0 and data.startswith(tail)
                        and all(x is y[0] for x, y in zip(grefs, mrefs))
                        and ((nnew == 0 and tail == data) or (nnew == 1 and len(tail) < len(data))))
                if not good:
                    return Fail(f'store/{cls}/builder-content-differs-from-model',
                                f'{where}: builder {_clip(gbits)} / {len(grefs)} refs, model had {_clip(mbits)} / {len(mrefs)} refs, '
                                f'data {len(data)} bits')
                mbits = gbits
                mrefs = mrefs + [(c, _walk_depth(c, memo)) for c in grefs[len(mrefs):]]
            else:
                want_bits = mbits + v['bits']
                want = mrefs + [(c, spec_depth(s)) for c, s in zip(new_cells, v['children'])]
                assert len(new_cells) == len(v['children'])
                if gbits != want_bits or len(grefs) != len(want) or not all(_same_cell(x, y[0]) for x, y in zip(grefs, want)):
                    return Fail(f'store/{cls}/builder-content-differs-from-model',
                                f'{where}: builder {_clip(gbits)} / {len(grefs)} refs, expected {_clip(want_bits)} / {len(want)} refs')
                mbits, mrefs = want_bits, want
        # ---- a finished cell respects the limits
        maxd = max((d for _, d in mrefs), default=-1)
        ok, cell = call(b.end_cell)
        if maxd >= MAXD:
            if ok:
                return Fail('end_cell/cell-deeper-than-1023-produced',
                            f'{where}: builder holds a child of depth {maxd}; end_cell() returned a cell '
                            f'(reported depth {getattr(cell, "_depths", ["?"])[-1]})')
            continue
        if not ok:
            return Fail(f'end_cell/refused-within-limits/{exc_sig(cell)}',
                        f'{where}: {len(mbits)} bits, {len(mrefs)} refs, deepest child {maxd}: {cell!r}')
        cb = cell.bits.to01()
        if len(cb) > MAXB or len(cell.refs) > MAXR:
            return Fail('end_cell/cell-over-capacity', f'{where}: cell with {len(cb)} bits, {len(cell.refs)} refs')
        if cb != mbits or len(cell.refs) != len(mrefs) or not all(x is y[0] for x, y in zip(cell.refs, mrefs)):
            return Fail('end_cell/cell-differs-from-model', f'{where}: cell {_clip(cb)} / {len(cell.refs)} refs, model {_clip(mbits)} / {len(mrefs)} refs')
        for lvl in range(4):
            ok, d = call(cell.get_depth, lvl)
            if ok and d > MAXD:
                return Fail('end_cell/cell-deeper-than-1023-produced', f'{where}: cell reports depth {d} at level {lvl}')
        # builder operations on a builder TAKEN FROM the finished cell must not grow the cell itself past the limits
        if len(cell.refs) < MAXR + 1:
            call(lambda: cell.to_builder().store_ref(cell).store_ref(cell))
            call(lambda: cell.to_builder().store_bits('1' * 8))
            if len(cell.refs) != len(mrefs) or cell.bits.to01() != mbits:
                return Fail('end_cell/finished-cell-grew-through-a-derived-builder',
                            f'{where}: after to_builder().store_*: cell has {len(cell.bits)} bits / {len(cell.refs)} refs, '
                            f'was {len(mbits)} / {len(mrefs)}')
    return first_known


# --------------------------------------------------------------------------------------------------
# builder-programs: classification (pure) and generator

def _program_trace(steps):
    """per step: (step, used bits before, used refs before, verdict, bit size or None, ref need)"""
    used, urefs = 0, 0
    for st_ in steps:
        k = st_['op']
        if k in ('snake_bytes', 'snake_string'):
            size, rneed = 8 * len(_snake_data(st_)), 0
        else:
            inr, bits, children, nominal = effect(st_)
            size, rneed = (len(bits), len(children)) if inr else (nominal, 0)
        nu, nr, v = advance(st_, used, urefs)
        yield st_, used, urefs, v, size, rneed
        used, urefs = nu, nr


def _rel(end, limit):
    return {0: 'exact-fit', 1: 'one-too-many', -1: 'one-fewer'}.get(end - limit, 'far-over' if end > limit else 'fits')


def classify_program(case):
    seen = set()

    def lab(x):
        if x not in seen:
            seen.add(x)
            return True
        return False
    out = []
    for st_, used, urefs, v, size, rneed in _program_trace(case['steps']):
        k = st_['op']
        labels = ['op=' + opclass(st_), 'verdict=' + (v['must'] if v['must'] == 'ok' else 'raise:' + v['why'])]
        nonzero = used > 0 or urefs > 0
        if size is not None and not st_.get('filler'):
            r = _rel(used + size, MAXB)
            labels.append('bits:' + r + ('' if nonzero else '@empty'))
            if size == 0 and used == MAXB:
                labels.append('bits:zero-size-store-at-full')
            if r in ('exact-fit', 'one-too-many'):
                labels.append(f'bits:{r}:{k}')
        if rneed and not st_.get('filler'):
            r = _rel(urefs + rneed, MAXR)
            labels.append('refs:' + r)
            if r in ('exact-fit', 'one-too-many'):
                labels.append(f'refs:{r}:{k}')
        if k in ('snake_bytes', 'snake_string') and v.get('spill'):
            labels.append('snake:spills-into-ref' + (':last-free-ref' if urefs == MAXR - 1 else ''))
        if k == 'slice':
            total = len(spec_children(st_['c']))
            if st_['lrefs']:
                labels.append('slice:partly-consumed-refs')
                if urefs + total > MAXR >= urefs + rneed:
                    labels.append('slice:partly-consumed-refs:fits-only-by-what-remains')
            if st_['skip']:
                labels.append('slice:partly-consumed-bits')
                if used + len(spec_bits(st_['c'])) > MAXB >= used + size:
                    labels.append('slice:partly-consumed-bits:fits-only-by-what-remains')
            labels.append('slice:route=' + st_.get('route', 'begin_parse'))
        if v['must'] == 'ok' and 'children' in v:
            for ch in v['children']:
                d = spec_depth(ch)
                if d >= 1022:
                    labels.append(f'deep:child-depth-{d}-via-{k}')
        if v['must'] == 'raise' and v['why'] == 'out-of-range':
            labels.append('out-of-range:' + k + ('' if nonzero else '@empty'))
        out.extend(x for x in labels if lab(x))
    n = len(case['steps'])
    out.append('steps=' + ('1-3' if n <= 3 else '4-8' if n <= 8 else '9-16' if n <= 16 else '>16'))
    return out


def nontrivial_program(case):
    for st_, used, urefs, v, size, rneed in _program_trace(case['steps']):
        if st_.get('filler') or not (used > 0 or urefs > 0):
            continue
        if size and abs(used + size - MAXB) <= 1:
            return True
        if rneed and abs(urefs + rneed - MAXR) <= 1:
            return True
    return False


def _bits01(n):
    return st.integers(0, (1 << n) - 1).map(lambda v: R.uint(v, n)) if n else st.just('')


_W_EDGE = [1, 2, 7, 8, 9, 16, 31, 32, 33, 64, 127, 128, 255, 256]
_leaf = st.integers(0, 12).flatmap(_bits01).map(lambda b: {'b': b, 'r': []})
_acc = st.one_of(st.binary(min_size=32, max_size=32), st.sampled_from([b'\x00' * 32, b'\xff' * 32])).map(bytes.hex)


def _size_near(draw, left, lo, hi, unit=1):
    """a size in [lo, hi] (multiple of unit), biased towards the remaining capacity and towards small"""
    cands = [x for x in (left // unit, left // unit + 1, left // unit - 1) if lo <= x <= hi]
    pool = [st.integers(lo, min(hi, lo + 24)), st.integers(lo, hi)]
    if cands:
        pool.append(st.sampled_from(cands))
    return draw(st.one_of(pool))


def _cellspec(draw, nbits, nrefs, deep_ok=True):
    kids = []
    for j in range(nrefs):
        if deep_ok and draw(st.integers(0, 11)) == 0:
            kids.append(draw(st.sampled_from([{'chain': 1}, {'chain': 1021}, {'chain': 1022}, {'pruned': 1021}, {'pruned': 1022}])))
        else:
            kids.append(draw(_leaf))
    return {'b': draw(_bits01(nbits)), 'r': kids}


def _draw_uint(draw, signed, left):
    wmax = 257 if signed else 256
    w = draw(st.one_of(st.sampled_from(_W_EDGE + ([257] if signed else [])), st.integers(1, wmax),
                       st.sampled_from([x for x in (left, left + 1, left - 1) if 1 <= x <= wmax] or [1])))
    lo, hi = (-(1 << (w - 1)), (1 << (w - 1)) - 1) if signed else (0, (1 << w) - 1)
    if draw(st.integers(0, 11)) == 0:
        v = draw(st.sampled_from([hi + 1, lo - 1, hi + 2, lo - 2, (hi + 1) * 2, -(hi + 1) * 2 - 1, hi + (1 << 64)]))
    else:
        v = draw(st.one_of(st.sampled_from([lo, hi, 0, min(1, hi), (lo + hi) // 2]), st.integers(lo, hi)))
    return {'op': 'int' if signed else 'uint', 'w': w, 'v': v}


def _draw_var(draw, kind, left):
    bl = 4 if kind == 'coins' else draw(st.sampled_from([1, 2, 3, 4, 5]))
    lmax = (1 << bl) - 1
    want = (left - bl) // 8
    ln = draw(st.one_of(st.integers(0, lmax), st.sampled_from([x for x in (want, want + 1, want - 1, lmax) if 0 <= x <= lmax] or [0])))
    signed = kind == 'var_int'
    if draw(st.integers(0, 11)) == 0:       # out of range
        top = (1 << (8 * lmax - 1)) if signed else (1 << (8 * lmax))
        v = draw(st.sampled_from([top, top + 1, top << 8, -top - 1] if signed else [top, top + 1, top << 8, -1, -256, -top]))
    elif ln == 0:
        v = 0
    elif signed:
        neg = draw(st.booleans())
        lo = 1 if ln == 1 else 1 << (8 * (ln - 1) - 1)
        hi = (1 << (8 * ln - 1)) - 1
        m = draw(st.one_of(st.sampled_from([lo, hi]), st.integers(lo, hi)))
        v = -m - 1 if neg else m
    else:
        lo, hi = 1 << (8 * (ln - 1)), (1 << (8 * ln)) - 1
        v = draw(st.one_of(st.sampled_from([lo, hi]), st.integers(lo, hi)))
    step = {'op': kind, 'v': v}
    if kind != 'coins':
        step['bl'] = bl
    return step


_TEXT = st.text(alphabet='aZ09 é€𝄞', max_size=130)


def _fit_utf8(s, nbytes):
    """a string of exactly nbytes UTF-8 bytes starting like s"""
    out, n = [], 0
    for ch in s:
        k = len(ch.encode('utf-8'))
        if n + k > nbytes:
            break
        out.append(ch)
        n += k
    return ''.join(out) + 'x' * (nbytes - n)


def _draw_op(draw, kind, left, rleft):
    if kind == 'bit':
        return {'op': 'bit', 'v': draw(st.integers(0, 1)), 'form': draw(st.sampled_from(['int', 'str', 'bool']))}
    if kind == 'bool':
        return {'op': 'bool', 'v': draw(st.booleans())}
    if kind == 'bits':
        n = _size_near(draw, left, 0, 1030)
        return {'op': 'bits', 'v': draw(_bits01(n)), 'form': draw(st.sampled_from(['str', 'str', 'list', 'ba', 'tvm', 'tuple', 'gen', 'iter']))}
    if kind in ('uint', 'int'):
        return _draw_uint(draw, kind == 'int', left)
    if kind == 'bytes':
        n = _size_near(draw, left, 0, 129, 8)
        return {'op': 'bytes', 'v': draw(st.binary(min_size=n, max_size=n)).hex()}
    if kind == 'string':
        n = _size_near(draw, left, 0, 128, 8)
        return {'op': 'string', 'v': _fit_utf8(draw(_TEXT), n)}
    if kind in ('coins', 'var_uint', 'var_int'):
        return _draw_var(draw, kind, left)
    if kind == 'addr_none':
        return {'op': 'addr_none'}
    if kind == 'addr_std':
        wc = draw(st.one_of(st.integers(-128, 127), st.sampled_from([-128, 127, 0, -1])))
        if draw(st.integers(0, 9)) == 0:
            wc = draw(st.sampled_from([128, -129, 255, 1 << 31]))
        step = {'op': 'addr_std', 'wc': wc, 'acc': draw(_acc), 'via': 'obj'}
        if draw(st.integers(0, 2)) == 0:
            depth = draw(st.sampled_from([1, 2, 29, 30]))
            step['any'] = [depth, draw(st.integers(0, (1 << depth) - 1))]
        elif -128 <= wc <= 127 and draw(st.booleans()):
            step['via'] = 'str'
        return step
    if kind == 'addr_ext':
        n = _size_near(draw, left - 11, 0, 511)
        r = draw(st.integers(0, 11))
        if r == 0:
            return {'op': 'addr_ext', 'len': n, 'v': (1 << n) + draw(st.integers(0, 3))}
        if r == 1:
            return {'op': 'addr_ext', 'len': draw(st.sampled_from([512, 513, 1000])), 'v': 1}
        return {'op': 'addr_ext', 'len': n, 'v': draw(st.integers(0, (1 << n) - 1)) if n else 0}
    if kind in ('ref', 'maybe_ref', 'dict'):
        r = draw(st.integers(0, 11))
        if kind != 'ref' and r <= 2:
            c = None
        elif r == 11:
            c = {'pruned': 1023}                # exotic child whose level-0 depth is 1023: the parent would have depth 1024
        elif r == 10:
            c = draw(st.sampled_from([{'pruned': 0}, {'pruned': 7}, {'pruned': 1022}, {'pruned': 3, 'hi': [1023]}, {'pruned': 3, 'hi': [1022]},
                                      {'pruned': 0, 'hi': [5, 1023]}, {'pruned': 1022, 'hi': [1022, 1022]}, {'pruned': 2, 'hi': [1023, 4]}]))
        elif r == 9:
            c = {'chain': 1023}
        elif r == 8:
            c = {'chain': 1022}
        elif r == 7:
            c = {'b': draw(_bits01(3)), 'r': [draw(_leaf), {'chain': 1022}]}       # a cell of depth 1023
        elif r == 6:
            c = _cellspec(draw, draw(st.sampled_from([0, 8, 1023])), draw(st.integers(0, 4)), deep_ok=False)
        else:
            c = draw(_leaf)
        return {'op': kind, 'c': c}
    if kind == 'cell':
        n = _size_near(draw, left, 0, 1023)
        nr = draw(st.one_of(st.integers(0, 4), st.sampled_from([x for x in (rleft, rleft + 1, rleft - 1) if 0 <= x <= 4] or [0])))
        if draw(st.integers(0, 19)) == 0:
            return {'op': 'cell', 'c': {'chain': draw(st.sampled_from([1022, 1023]))}}
        return {'op': 'cell', 'c': _cellspec(draw, n, nr)}
    if kind == 'slice':
        total_r = draw(st.sampled_from([0, 1, 2, 3, 3, 4, 4, 4]))
        lrefs = draw(st.integers(0, total_r)) if draw(st.integers(0, 3)) else 0
        skip = draw(st.sampled_from([0, 0, 1, 5, 8, 100]))
        rem = _size_near(draw, left, 0, 1023 - skip)
        spec = _cellspec(draw, rem + skip, total_r)
        return {'op': 'slice', 'c': spec, 'skip': skip, 'lrefs': lrefs,
                'route': draw(st.sampled_from(['begin_parse', 'begin_parse', 'copy', 'plain', 'from_cell']))}
    if kind == 'rebind':
        return {'op': 'rebind', 'what': draw(st.sampled_from(['bits', 'refs', 'both']))}
    if kind == 'snake_bytes':
        n = draw(st.one_of(st.integers(0, 8), st.sampled_from([max(0, left // 8 + d) for d in (-1, 0, 1, 2)]),
                           st.sampled_from([126, 127, 128, 254, 255, 300])))
        return {'op': 'snake_bytes', 'v': draw(st.binary(min_size=n, max_size=n)).hex()}
    if kind == 'snake_string':
        n = draw(st.one_of(st.integers(0, 8), st.sampled_from([max(0, left // 8 + d) for d in (-1, 0, 1)]), st.just(200)))
        return {'op': 'snake_string', 'v': _fit_utf8(draw(_TEXT), n), 'prefix': draw(st.booleans())}
    raise AssertionError(kind)


_KINDS = [('bit', 2), ('bool', 1), ('bits', 3), ('uint', 3), ('int', 3), ('bytes', 2), ('string', 2), ('coins', 3),
          ('var_uint', 2), ('var_int', 2), ('addr_none', 1), ('addr_std', 2), ('addr_ext', 2), ('ref', 3), ('maybe_ref', 3),
          ('dict', 2), ('cell', 4), ('slice', 6), ('snake_bytes', 3), ('snake_string', 1), ('rebind', 2)]
_KIND_POOL = [k for k, w in _KINDS for _ in range(w)]
_RELS = ['exact', 'exact', 'exact', 'over1', 'over1', 'over1', 'under1', 'under1', 'asis', 'asis', 'asis']
_DELTA = {'exact': 0, 'over1': -1, 'under1': 1}


@st.composite
def _program(draw):
    n = draw(st.sampled_from([1, 2, 3, 4, 5, 6, 8, 10]))
    steps, used, urefs = [], 0, 0

    def emit(step):
        nonlocal used, urefs
        steps.append(step)
        used, urefs, _ = advance(step, used, urefs)

    if draw(st.integers(0, 3)) == 0:          # start from a random fill level
        emit({'op': 'bits', 'v': draw(_bits01(draw(st.integers(1, 1000)))), 'form': 'str', 'filler': True})
    for _ in range(n):
        left, rleft = MAXB - used, MAXR - urefs
        step = _draw_op(draw, draw(st.sampled_from(_KIND_POOL)), left, rleft)
        if step['op'] in ('snake_bytes', 'snake_string'):
            size, rneed = 8 * len(_snake_data(step)), 0
        else:
            inr, bits, children, nominal = effect(step)
            size, rneed = (len(bits), len(children)) if inr else (nominal, 0)
        rel = draw(st.sampled_from(_RELS))
        if rel != 'asis' and size is not None:
            target = size + _DELTA[rel]
            if 0 <= target < left:
                emit({'op': 'bits', 'v': draw(_bits01(left - target)), 'form': 'str', 'filler': True})
        rrel = draw(st.sampled_from(_RELS))
        if step['op'] in ('snake_bytes', 'snake_string'):
            rneed = 1
        if rrel != 'asis' and (rneed or draw(st.integers(0, 5)) == 0):
            target = rneed + _DELTA[rrel]
            for _ in range(max(0, rleft - max(target, 0))):
                emit({'op': 'ref', 'c': draw(_leaf), 'filler': True})
        emit(step)
    return {'steps': steps}


def strat_programs(tier):
    return _program()


# --------------------------------------------------------------------------------------------------
# range-grid (exhaustive over widths)

def _stream_bits(tag, n):
    out, i = '', 0
    while len(out) < n:
        out += R.from_bytes(hashlib.sha256(f'{tag}/{i}'.encode()).digest())
        i += 1
    return out[:n]


def grid_values(case):
    """(good values, bad values, writer, nominal size of the largest good value)"""
    k = case['kind']
    if k in ('uint', 'int') and case['w'] == 0:
        # a stated width of 0 bits holds no value but 0: anything else "does not fit the stated width"
        return [], [1, -1, 5, 255, 1 << 64, -(1 << 64)], (lambda v: ''), 0
    if k == 'uint':
        w = case['w']
        hi = (1 << w) - 1
        good = sorted({0, 1, hi, hi - 1, 1 << (w - 1)})
        bad = [hi + 1, -1, hi + 2, (hi + 1) << 8, -(1 << (w - 1)), -hi - 1, -hi]
        return [v for v in good if 0 <= v <= hi], [v for v in bad if not 0 <= v <= hi], (lambda v: R.uint(v, w)), w
    if k == 'int':
        w = case['w']
        lo, hi = -(1 << (w - 1)), (1 << (w - 1)) - 1
        good = {0, -1, lo, hi, lo + 1, hi - 1}
        bad = [hi + 1, lo - 1, (1 << w) - 1, -(1 << w), hi + 2, lo - 2, (hi + 1) << 8]
        return sorted(v for v in good if lo <= v <= hi), [v for v in bad if not lo <= v <= hi], (lambda v: R.sint(v, w)), w
    bl = 4 if k == 'coins' else case['bl']
    lmax = (1 << bl) - 1
    if k in ('var_uint', 'coins'):
        hi = (1 << (8 * lmax)) - 1
        good = [0, 1, 255, 256, hi, hi - 1, 1 << (8 * lmax - 1), (1 << (8 * (lmax - 1))) if lmax > 1 else 1]
        bad = [hi + 1, hi + 2, (hi + 1) << 8, -1, -256, -hi, -hi - 1]
        return sorted(v for v in set(good) if 0 <= v <= hi), bad, (lambda v: R.var_uint(v, bl)), bl + 8 * lmax
    lo, hi = -(1 << (8 * lmax - 1)), (1 << (8 * lmax - 1)) - 1
    good = [0, 1, -1, 127, 128, -128, -129, lo, hi, lo + 1, hi - 1]
    bad = [hi + 1, lo - 1, hi + 2, lo - 2, (hi + 1) << 8, lo << 8]
    return sorted(v for v in set(good) if lo <= v <= hi), bad, (lambda v: R.var_int(v, bl)), bl + 8 * lmax


def _grid_store(b, case, v):
    k = case['kind']
    if k == 'uint':
        return b.store_uint(v, case['w'])
    if k == 'int':
        return b.store_int(v, case['w'])
    if k == 'coins':
        return b.store_coins(v)
    if k == 'var_uint':
        return b.store_var_uint(v, case['bl'])
    return b.store_var_int(v, case['bl'])


def check_range(case):
    from pytoniq_core.boc.builder import Builder
    k = case['kind']
    good, bad, writer, _ = grid_values(case)
    fill = _stream_bits(f'fill{case["fill"]}', case['fill'])
    tag = f'{k} w={case.get("w", case.get("bl"))} fill={case["fill"]}'
    for v in bad:
        b = Builder().store_bits(fill)
        ok, e = call(_grid_store, b, case, v)
        side = 'above' if v > 0 else 'below'
        if ok:
            return Fail(f'range/{k}/accepted-out-of-range/{side}', f'{tag}: value {v} stored; builder now {_clip(b.bits.to01())}')
        if len(b.bits) > MAXB:
            return Fail(f'range/{k}/builder-over-capacity-after-refusal', f'{tag}: value {v}')
        ok, c = call(b.end_cell)
        if not ok or len(c.bits) > MAXB:
            return Fail(f'range/{k}/no-valid-cell-after-refusal', f'{tag}: value {v}: {c!r}')
    for v in good:
        want = fill + writer(v)
        if len(want) > MAXB:
            continue
        b = Builder().store_bits(fill)
        ok, e = call(_grid_store, b, case, v)
        if not ok:
            return Fail(f'range/{k}/refused-in-range/{exc_sig(e)}', f'{tag}: value {v}: {e!r}')
        got = b.bits.to01()
        if got != want:
            return Fail(f'range/{k}/bits-differ', f'{tag}: value {v}: wrote {_clip(got[len(fill):])} expected {_clip(want[len(fill):])}')
        ok, c = call(b.end_cell)
        if not ok or c.bits.to01() != want:
            return Fail(f'range/{k}/end_cell-differs', f'{tag}: value {v}: {c!r}')
    return None


def enum_range(tier):
    def fills(size):
        room = MAXB - size
        return sorted({0, 1, 7, room // 2, max(0, room - 1), room})
    for kind in ('uint', 'int'):
        for f in (0, 1, 8, 1022, 1023):
            yield {'kind': kind, 'w': 0, 'fill': f}
    for w in range(1, 257):
        for f in fills(w):
            yield {'kind': 'uint', 'w': w, 'fill': f}
    for w in range(1, 258):
        for f in fills(w):
            yield {'kind': 'int', 'w': w, 'fill': f}
    for bl in (1, 2, 3, 4, 5):
        for kind in ('var_uint', 'var_int'):
            for f in fills(bl + 8 * ((1 << bl) - 1)) + [MAXB - bl, MAXB - bl - 8]:
                yield {'kind': kind, 'bl': bl, 'fill': f}
    for f in fills(124) + [MAXB - 4, MAXB - 12]:
        yield {'kind': 'coins', 'fill': f}


def classify_range(case):
    _, _, _, size = grid_values(case)
    f = case['fill']
    yield 'kind=' + case['kind']
    yield 'fill=' + ('empty' if f == 0 else 'exact-fit-for-width' if f + size == MAXB else 'one-fewer' if f + size == MAXB - 1
                     else 'width-does-not-fit' if f + size > MAXB else 'partial')


def nontrivial_range(case):
    return case['fill'] > 0


# --------------------------------------------------------------------------------------------------
# read-bounds: model of one consuming read (pure)

def _twos(bits):
    v = int(bits, 2)
    return v - (1 << len(bits)) if bits[0] == '1' else v


def read_model(rd, rb, kr):
    """verdict of read `rd` on a slice with remaining bit string rb and kr remaining references:
       ('short',)                       more is asked than remains: the call MUST raise
       ('ok', value, nbits, nrefs)      must return value and consume exactly nbits / nrefs
       ('noverdict',)                   the library may refuse for reasons other than length"""
    k = rd['op']
    r = len(rb)
    if k in ('bit', 'bool'):
        return ('short',) if r < 1 else ('ok', int(rb[0]), 1, 0)
    if k in ('bits', 'skip'):
        n = rd['n']
        return ('short',) if r < n else ('ok', rb[:n], n, 0)
    if k in ('uint', 'int'):
        n = rd['n']
        assert n >= 1
        return ('short',) if r < n else ('ok', int(rb[:n], 2) if k == 'uint' else _twos(rb[:n]), n, 0)
    if k in ('bytes', 'string'):
        n = rd['n']
        assert n >= 1 or k == 'bytes'
        if r < 8 * n:
            return ('short',)
        data = R.to_bytes(rb[:8 * n])
        if k == 'bytes':
            return ('ok', data, 8 * n, 0)
        try:
            return ('ok', data.decode('utf-8'), 8 * n, 0)
        except UnicodeDecodeError:
            return ('noverdict',)
    if k in ('coins', 'var_uint', 'var_int'):
        bl = 4 if k == 'coins' else rd['bl']
        if r < bl:
            return ('short',)
        ln = int(rb[:bl], 2)
        if ln == 0:
            return ('ok', 0, bl, 0)
        if r < bl + 8 * ln:
            return ('short',)
        body = rb[bl:bl + 8 * ln]
        return ('ok', _twos(body) if k == 'var_int' else int(body, 2), bl + 8 * ln, 0)
    if k == 'address':
        if r < 2:
            return ('short',)
        tag = rb[:2]
        if tag == '00':
            return ('ok', None, 2, 0)
        if tag == '01':
            if r < 11:
                return ('short',)
            n = int(rb[2:11], 2)
            if r < 11 + n:
                return ('short',)
            return ('ok', ('ext', n, int(rb[11:11 + n], 2) if n else 0), 11 + n, 0)
        if tag == '11':
            return ('noverdict',)
        if r < 3:
            return ('short',)
        pos, any_ = 3, None
        if rb[2] == '1':
            if r < 8:
                return ('short',)
            depth = int(rb[3:8], 2)
            if depth < 1 or depth > 30:
                return ('noverdict',)
            if r < 8 + depth:
                return ('short',)
            any_ = (depth, int(rb[8:8 + depth], 2))
            pos = 8 + depth
        if r < pos + 264:
            return ('short',)
        return ('ok', ('std', _twos(rb[pos:pos + 8]), R.to_bytes(rb[pos + 8:pos + 264]), any_), pos + 264, 0)
    if k == 'ref':
        return ('short',) if kr < 1 else ('ok', 'ref', 0, 1)
    if k == 'maybe_ref':
        if r < 1:
            return ('short',)
        if rb[0] == '0':
            return ('ok', None, 1, 0)
        return ('short',) if kr < 1 else ('ok', 'ref', 1, 1)
    if k == 'dict':           # load_dict: the optional-reference framing of maybe_ref, then the referenced cell is parsed as a dictionary
        if r < 1:
            return ('short',)
        if rb[0] == '0':
            return ('ok', None, 1, 0)
        # bit 1 without a reference left: must raise. With a reference: the cell is no dictionary - whether parsing it raises is not
        # judged ('free'), only that nothing is un-consumed and later reads see the original data
        return ('short',) if kr < 1 else ('free',)
    raise AssertionError(k)


def _do_read(s, rd):
    k = rd['op']
    if k == 'bit':
        return s.load_bit()
    if k == 'bool':
        return s.load_bool()
    if k == 'bits':
        return s.load_bits(rd['n'])
    if k == 'skip':
        return s.skip_bits(rd['n'])
    if k == 'uint':
        return s.load_uint(rd['n'])
    if k == 'int':
        return s.load_int(rd['n'])
    if k == 'bytes':
        return s.load_bytes(rd['n'])
    if k == 'string':
        return s.load_string(rd['n'])
    if k == 'coins':
        return s.load_coins()
    if k == 'var_uint':
        return s.load_var_uint(rd['bl'])
    if k == 'var_int':
        return s.load_var_int(rd['bl'])
    if k == 'address':
        return s.load_address()
    if k == 'ref':
        return s.load_ref()
    if k == 'maybe_ref':
        return s.load_maybe_ref()
    if k == 'dict':
        return s.load_dict(8)
    raise AssertionError(k)


def _ref_bits(j):
    return R.uint(0xA0 + j, 8) + '1' * j


def _value_same(rd, want, got, next_ref_bits):
    k = rd['op']
    if k == 'skip':
        return True
    if k == 'bit':
        return got == want and not isinstance(got, (str, bytes))
    if k == 'bool':
        return isinstance(got, bool) and got == bool(want)
    if k == 'bits':
        f = getattr(got, 'to01', None)
        return f is not None and f() == want
    if k in ('uint', 'int', 'coins', 'var_uint', 'var_int'):
        return isinstance(got, int) and got == want
    if k == 'bytes':
        return isinstance(got, (bytes, bytearray)) and bytes(got) == want
    if k == 'string':
        return got == want
    if k in ('ref', 'maybe_ref', 'dict'):
        if want is None:
            return got is None
        return got is not None and hasattr(got, 'bits') and got.bits.to01() == next_ref_bits
    if k == 'address':
        if want is None:
            return got is None
        if want[0] == 'ext':
            return (got is not None and not hasattr(got, 'hash_part') and getattr(got, 'len', None) == want[1]
                    and (getattr(got, 'external_address', None) == want[2] or (want[1] == 0 and getattr(got, 'external_address', 0) in (0, None))))
        a = getattr(got, 'anycast', None)
        return (getattr(got, 'wc', None) == want[1] and getattr(got, 'hash_part', None) == want[2]
                and ((a is None) if want[3] is None else (a is not None and (a.depth, a.rewrite_pfx) == want[3])))
    raise AssertionError(k)


ROUTES = ['builder', 'to_slice', 'boc', 'slice_boc', 'plain', 'tvm', 'from_cell', 'cell_to_slice', 'child', 'plain_child']
POSTS = ['none', 'copy', 'to_cell', 'to_builder']
PLAIN_ROUTES = ('plain', 'plain_child')


def _make_slice(case):
    """library Slice over case['bits'] / case['nrefs'] leaf references, by case['route'], pre-consumed by case['pre'],
    then passed through case['post']"""
    from pytoniq_core.boc.builder import Builder
    from pytoniq_core.boc.cell import Cell
    from pytoniq_core.boc.slice import Slice
    route, bits = case['route'], case['bits']
    kids = [Builder().store_bits(_ref_bits(j)).end_cell() for j in range(case['nrefs'])]

    def by_builder():
        b = Builder().store_bits(bits)
        for c in kids:
            b.store_ref(c)
        return b
    if route == 'builder':
        s = by_builder().end_cell().begin_parse()
    elif route == 'to_slice':
        s = by_builder().to_slice()
    elif route == 'boc':
        s = Cell.one_from_boc(by_builder().end_cell().to_boc()).begin_parse()
    elif route == 'slice_boc':
        s = Slice.one_from_boc(by_builder().end_cell().to_boc(hash_crc32=True))
    elif route == 'plain':
        from bitarray import bitarray
        s = Cell(bitarray(bits), list(kids)).begin_parse()
    elif route == 'tvm':
        from pytoniq_core.boc.tvm_bitarray import TvmBitarray
        t = TvmBitarray(1023)
        t.extend(bits)
        s = Cell(t, list(kids)).begin_parse()
    elif route == 'from_cell':
        s = Slice.from_cell(by_builder().end_cell())
    elif route == 'cell_to_slice':
        s = by_builder().end_cell().to_slice()
    elif route == 'child':
        s = Builder().store_ref(by_builder().end_cell()).end_cell().begin_parse().load_ref().begin_parse()
    elif route == 'plain_child':
        from bitarray import bitarray
        s = Cell(bitarray('1'), [Cell(bitarray(bits), list(kids))]).begin_parse().load_ref().begin_parse()
    else:
        raise AssertionError(route)
    nb, nr = case['pre']
    if nb:
        s.load_bits(nb)
    for _ in range(nr):
        s.load_ref()
    post = case.get('post', 'none')
    if post == 'copy':
        s = s.copy()
    elif post == 'to_cell':
        s = s.to_cell().begin_parse()
    elif post == 'to_builder':
        s = s.to_builder().to_slice()
    return s


def _family(case):
    return 'plain-bitarray-cell' if case['route'] in PLAIN_ROUTES else 'tvm-bitarray-cell'


def check_reads(case):
    nb, nr = case['pre']
    assert nb <= len(case['bits']) and nr <= case['nrefs']
    fam = _family(case)
    for si, seq in enumerate(case['seqs']):
        s = _make_slice(case)
        rb, ri = case['bits'][nb:], nr                       # model: remaining bit string, index of the next reference
        if s.remaining_bits != len(rb) or s.remaining_refs != case['nrefs'] - ri:
            return Fail(f'read/setup/remaining-differs/{case["route"]}+{case.get("post", "none")}',
                        f'slice reports {s.remaining_bits} bits/{s.remaining_refs} refs, expected {len(rb)}/{case["nrefs"] - ri}')
        for qi, rd in enumerate(seq):
            k = rd['op']
            kr = case['nrefs'] - ri
            verdict = read_model(rd, rb, kr)
            where = (f'route={case["route"]} post={case.get("post", "none")} pre={case["pre"]} seq#{si} read#{qi} {rd} '
                     f'with {len(rb)} bits/{kr} refs remaining')
            ok, val = call(_do_read, s, rd)
            ab, ar = s.remaining_bits, s.remaining_refs
            if ab > len(rb) or ar > kr:
                return Fail(f'read/{k}/remaining-grew/{fam}', f'{where}: now {ab} bits/{ar} refs')
            if verdict[0] == 'short':
                if ok:
                    return Fail(f'read/over-read-returned-data/{k}/{fam}',
                                f'{where}: returned {_short(val.to01() if hasattr(val, "to01") else val, 120)}; now {ab} bits/{ar} refs remain')
            elif verdict[0] == 'ok':
                _, want, nbits, nrefs = verdict
                if not ok:
                    return Fail(f'read/{k}/refused-within-bounds/{exc_sig(val)}', f'{where}: {val!r}')
                if not _value_same(rd, want, val, _ref_bits(ri)):
                    return Fail(f'read/{k}/value-differs/{fam}',
                                f'{where}: returned {_short(val.to01() if hasattr(val, "to01") else val, 120)}, expected {_short(want, 120)}')
                if (ab, ar) != (len(rb) - nbits, kr - nrefs):
                    return Fail(f'read/{k}/consumed-wrong-amount/{fam}',
                                f'{where}: now {ab} bits/{ar} refs, expected {len(rb) - nbits}/{kr - nrefs}')
            # re-synchronise (a refused composite read may have consumed its head; later reads are still compared
            # with the ORIGINAL data: what remains must be a suffix of it)
            rb = rb[len(rb) - ab:]
            ri = case['nrefs'] - ar
            if s.bits.to01() != rb:
                return Fail(f'read/{k}/remaining-content-altered/{fam}', f'{where}: slice now holds {_clip(s.bits.to01())}, original tail {_clip(rb)}')
    return None


# ---- simulation for labels / generator (atomic refusal except the composite heads the current library consumes)

def _sim_read(rd, rb, kr):
    v = read_model(rd, rb, kr)
    if v[0] == 'ok':
        return v, rb[v[2]:], kr - v[3]
    if v[0] == 'free':
        return v, rb[1:], kr - 1
    k = rd['op']
    head = 0
    if v[0] == 'short':
        if k in ('coins', 'var_uint', 'var_int'):
            bl = 4 if k == 'coins' else rd['bl']
            head = bl if len(rb) >= bl else 0
        elif k in ('maybe_ref', 'dict'):
            head = 1 if rb else 0
        elif k == 'address' and len(rb) >= 2:
            head = 2 if rb[:2] == '00' else 11 if (rb[:2] == '01' and len(rb) >= 11) else 2
    return v, rb[head:], kr


def _read_trace(case):
    for seq in case['seqs']:
        rb, kr = case['bits'][case['pre'][0]:], case['nrefs'] - case['pre'][1]
        for rd in seq:
            v, nrb, nkr = _sim_read(rd, rb, kr)
            yield rd, len(rb), kr, v
            rb, kr = nrb, nkr


def _asked(rd, v):
    return rd.get('n', 0) * (8 if rd['op'] in ('bytes', 'string') else 1) if 'n' in rd else None


def classify_reads(case):
    seen = set()
    out = ['route=' + case['route'], 'post=' + case.get('post', 'none')]
    if case['pre'] != [0, 0]:
        out.append('after-partial-consumption' + (':refs' if case['pre'][1] else ''))
    for rd, r, kr, v in _read_trace(case):
        k = rd['op']
        labels = []
        if v[0] == 'short':
            labels.append('over-read:' + k + ('@r=0' if r == 0 else '@r>0'))
            a = _asked(rd, v)
            if a is not None and a == r + 1:
                labels.append('over-read:by-exactly-one-bit')
            if k == 'ref' or (k == 'maybe_ref' and r >= 1):
                labels.append(f'over-read:refs@k={kr}')
            if case['route'] in PLAIN_ROUTES:
                labels.append('over-read:plain-bitarray-cell' + ('@r>0' if r > 0 else ''))
        elif v[0] == 'ok':
            labels.append('in-bounds:' + k)
            if v[2] == r and r > 0:
                labels.append('in-bounds:reads-exactly-all-remaining-bits')
            if v[3] and kr == 1:
                labels.append('in-bounds:reads-last-ref')
        else:
            labels.append('no-verdict:' + k)
        for x in labels:
            if x not in seen:
                seen.add(x)
                out.append(x)
    return out


def nontrivial_reads(case):
    return any(v[0] == 'short' for _, _, _, v in _read_trace(case))


# ---- grid: every remaining length r, every read on a fresh slice

def _grid_reads(rb, kr, salt):
    """sequences for a slice with remaining bits rb and kr refs: each read in bounds (largest) and over by the least"""
    r = len(rb)
    seqs = []
    for op in ('bits', 'skip'):
        seqs += [[{'op': op, 'n': r}, {'op': op, 'n': 1}], [{'op': op, 'n': r + 1}], [{'op': op, 'n': r + 8}],
                 [{'op': op, 'n': 0}, {'op': op, 'n': r + 1}]]
    for op, wmax in (('uint', 256), ('int', 257)):
        if r >= 1:
            seqs.append([{'op': op, 'n': min(r, wmax)}])
        if r < wmax:
            seqs += [[{'op': op, 'n': r + 1}], [{'op': op, 'n': min(wmax, r + 9)}]]
        else:                                           # consume down to fewer than wmax bits, then over-read by one
            lead, cur = [], r
            while cur >= wmax:
                lead.append({'op': 'skip', 'n': min(cur - wmax + 1, 1000)})
                cur -= lead[-1]['n']
            seqs.append(lead + [{'op': op, 'n': cur + 1}])
    for op in ('bytes', 'string'):
        n = r // 8
        if n >= 1:
            seqs.append([{'op': op, 'n': n}])
        seqs += [[{'op': op, 'n': n + 1}], [{'op': op, 'n': n + 2}]]
    seqs.append([{'op': 'bit'}] if r else [{'op': 'bit'}, {'op': 'bool'}])
    seqs.append([{'op': 'skip', 'n': r}, {'op': 'bit'}, {'op': 'bool'}, {'op': 'uint', 'n': 1}, {'op': 'coins'},
                 {'op': 'address'}, {'op': 'maybe_ref'}, {'op': 'bytes', 'n': 1}, {'op': 'var_int', 'bl': 1 + salt % 5}])
    seqs.append([{'op': 'bool'}])
    for op in ('coins', 'address', 'maybe_ref'):
        seqs.append([{'op': op}])
    for bl in (1 + salt % 5, 1 + (salt + 2) % 5):
        seqs += [[{'op': 'var_uint', 'bl': bl}], [{'op': 'var_int', 'bl': bl}]]
    seqs.append([{'op': 'ref'}] * (kr + 1))
    seqs.append([{'op': 'maybe_ref'}] * (kr + 2))
    # dictionary reads (maybe-ref framing) past the last reference, then plain reference reads: what was consumed stays consumed
    seqs.append([{'op': 'dict'}] * (kr + 2) + [{'op': 'ref'}])
    seqs.append([{'op': 'ref'}] * kr + [{'op': 'dict'}, {'op': 'ref'}, {'op': 'dict'}, {'op': 'maybe_ref'}, {'op': 'ref'}])
    return seqs


def _shaped(kind, r, salt):
    """r bits that start like the given typed value needing MORE than r bits (when one exists), else fitting"""
    rnd = _stream_bits(f'shape{kind}{r}/{salt}', 1100)
    if kind == 'random':
        return rnd[:r]
    if kind == 'ones':
        return '1' * r
    if kind == 'coins':
        ln = next((x for x in range(1, 16) if 4 + 8 * x > r), 15)
        return (R.uint(ln, 4) + rnd)[:r]
    if kind == 'var5':
        ln = next((x for x in range(1, 32) if 5 + 8 * x > r), 31)
        return (R.uint(ln, 5) + rnd)[:r]
    if kind == 'addr_std':
        head = '100' if salt % 2 else '101' + R.uint(1 + salt % 30, 5)
        return (head + rnd)[:r]
    if kind == 'addr_ext':
        n = min(511, max(0, r - 11 + 1 + salt % 3))
        return ('01' + R.uint(n, 9) + rnd)[:r]
    if kind == 'fitting':
        acc = hashlib.sha256(f'acc{r}'.encode()).digest()
        parts = [R.coins(salt * 1000003), R.addr_std(salt % 256 - 128, acc), R.var_int(-salt - 1, 5), '1', R.utf8('héllo €')]
        return (''.join(parts) + rnd)[:r]
    raise AssertionError(kind)


_SHAPES = ['random', 'ones', 'coins', 'var5', 'addr_std', 'addr_ext', 'fitting']


def enum_reads(tier):
    nshapes = 1 if tier == 'quick' else len(_SHAPES)
    salt = 0
    for r in range(0, 1024):
        for ri, route in enumerate(ROUTES):
            salt += 1
            if tier == 'quick' and (r + ri) % 2 and route not in PLAIN_ROUTES and r > 32:
                continue                                   # quick: half of the routes per r (alternating), all for r <= 32
            shape = _SHAPES[(r + ri) % len(_SHAPES)]
            k = (r + ri) % 5
            post = POSTS[(r // 3 + ri) % len(POSTS)]
            nb = (salt * 7) % 13 if (salt % 3 == 0 and r <= 1010) else 0
            nr = (salt % (k + 1)) if salt % 2 else 0
            rb = _shaped(shape, r, salt)
            yield {'route': route, 'post': post, 'bits': _stream_bits(f'junk{salt}', nb) + rb, 'nrefs': k, 'pre': [nb, nr],
                   'seqs': _grid_reads(rb, k - nr, salt)}
            for j in range(1, nshapes + (1 if route in PLAIN_ROUTES and tier == 'quick' else 0)):   # further shapes, same (r, route)
                shape2 = _SHAPES[(r + ri + j) % len(_SHAPES)]
                rb2 = _shaped(shape2, r, salt + j)
                k2 = (k + j) % 5
                yield {'route': route, 'post': POSTS[j % len(POSTS)] if j > 1 else 'none', 'bits': rb2, 'nrefs': k2, 'pre': [0, 0],
                       'seqs': _grid_reads(rb2, k2, salt + j)}


# ---- random sequences of reads on one slice

@st.composite
def _payload(draw):
    """(matching read, bits it consumes)"""
    kind = draw(st.sampled_from(['bit', 'bool', 'bits', 'skip', 'uint', 'int', 'bytes', 'string', 'coins', 'var_uint', 'var_int',
                                 'addr_none', 'addr_std', 'addr_any', 'addr_ext', 'maybe0', 'maybe1']))
    if kind in ('bit', 'bool'):
        return {'op': kind}, draw(_bits01(1))
    if kind in ('bits', 'skip'):
        n = draw(st.one_of(st.integers(0, 16), st.integers(0, 400)))
        return {'op': kind, 'n': n}, draw(_bits01(n))
    if kind in ('uint', 'int'):
        n = draw(st.one_of(st.sampled_from(_W_EDGE), st.integers(1, 256)))
        return {'op': kind, 'n': n}, draw(_bits01(n))
    if kind == 'bytes':
        n = draw(st.integers(0, 40))
        return {'op': 'bytes', 'n': n}, draw(_bits01(8 * n))
    if kind == 'string':
        s = draw(st.text(alphabet='aZ09 é€𝄞', min_size=1, max_size=12))
        return {'op': 'string', 'n': len(s.encode('utf-8'))}, R.utf8(s)
    if kind in ('coins', 'var_uint', 'var_int'):
        bl = 4 if kind == 'coins' else draw(st.integers(1, 5))
        ln = draw(st.integers(0, min((1 << bl) - 1, 20)))
        rd = {'op': kind} if kind == 'coins' else {'op': kind, 'bl': bl}
        return rd, R.uint(ln, bl) + draw(_bits01(8 * ln))
    if kind == 'addr_none':
        return {'op': 'address'}, '00'
    if kind == 'addr_std':
        return {'op': 'address'}, '100' + draw(_bits01(264))
    if kind == 'addr_any':
        d = draw(st.integers(1, 30))
        return {'op': 'address'}, '101' + R.uint(d, 5) + draw(_bits01(d + 264))
    if kind == 'addr_ext':
        n = draw(st.one_of(st.integers(0, 16), st.integers(0, 511)))
        return {'op': 'address'}, '01' + R.uint(n, 9) + draw(_bits01(n))
    return {'op': 'maybe_ref'}, ('0' if kind == 'maybe0' else '1')


@st.composite
def _read_case(draw):
    route = draw(st.sampled_from(ROUTES + ['plain', 'plain_child']))
    post = draw(st.sampled_from(POSTS + ['none', 'none']))
    nrefs = draw(st.integers(0, 4))
    nb = draw(st.sampled_from([0, 0, 1, 3, 8, 50]))
    nr = draw(st.integers(0, nrefs)) if draw(st.booleans()) else 0
    segs = draw(st.lists(_payload(), min_size=0, max_size=5))
    bits, reads = '', []
    for rd, pl in segs:
        if nb + len(bits) + len(pl) > MAXB:
            break
        bits += pl
        reads.append(rd)
    cut = min(len(bits), draw(st.sampled_from([0, 0, 1, 1, 2, 7, 8, 9, 64, 300])))
    bits = bits[:len(bits) - cut]
    # walk the model to know what remains, then ask relative to it
    rb, kr = bits, nrefs - nr
    for rd in reads:
        _, rb, kr = _sim_read(rd, rb, kr)
    for _ in range(draw(st.integers(1, 4))):
        r = len(rb)
        op = draw(st.sampled_from(['bits', 'skip', 'uint', 'int', 'bytes', 'string', 'bit', 'bool', 'coins', 'address', 'ref',
                                   'ref', 'maybe_ref', 'var_uint', 'var_int', 'dict']))
        if op in ('bits', 'skip'):
            rd = {'op': op, 'n': draw(st.sampled_from([r + 1, r + 1, r, max(0, r - 1), r + 2, r + 8, 1024, 5000]))}
        elif op in ('uint', 'int'):
            rd = {'op': op, 'n': max(1, min(256, draw(st.sampled_from([r + 1, r + 1, r, r - 1, r + 8, 256]))))}
        elif op in ('bytes', 'string'):
            rd = {'op': op, 'n': max(1, draw(st.sampled_from([r // 8 + 1, r // 8 + 1, r // 8, r // 8 + 2, 128, 200])))}
        elif op in ('var_uint', 'var_int'):
            rd = {'op': op, 'bl': draw(st.integers(1, 5))}
        else:
            rd = {'op': op}
        reads.append(rd)
        _, rb, kr = _sim_read(rd, rb, kr)
    return {'route': route, 'post': post, 'bits': draw(_bits01(nb)) + bits, 'nrefs': nrefs, 'pre': [nb, nr], 'seqs': [reads]}


def strat_reads(tier):
    return _read_case()


SUBCHECKS = [
    Sub('builder-programs', check_program, strategy=strat_programs, classify=classify_program, nontrivial=nontrivial_program,
        n=(4000, 100000), shards=(16, 32),
        note='programs of store operations placed relative to the remaining capacity; model verdict per step, limits and '
             'end_cell() after every step'),
    Sub('range-grid', check_range, enum=enum_range, classify=classify_range, nontrivial=nontrivial_range, shards=(8, 8),
        exhaustive=True,
        note='every width 1..256 uint / 1..257 int, every length-field width 1..5 of var_uint/var_int, coins: first values '
             'outside the range on both sides must raise, boundary values inside must store exact bits; 6 fill levels each'),
    Sub('read-bounds-grid', check_reads, enum=enum_reads, classify=classify_reads, nontrivial=nontrivial_reads, shards=(16, 32),
        note='every remaining length r in 0..1023 x 10 routes x typed content (quick: 1-2 shapes, thorough: 7): every consuming read on a fresh '
             'slice, largest in-bounds request and smallest over-read'),
    Sub('read-bounds', check_reads, strategy=strat_reads, classify=classify_reads, nontrivial=nontrivial_reads,
        n=(3000, 60000), shards=(16, 32),
        note='sequences of typed reads on one slice (typed payloads, last one cut short) followed by requests relative to '
             'what remains'),
]

# --------------------------------------------------------------------------------------------------
# exotic builders at the depth limit

def check_exotic_depth(case):
    """Builder(type_=Merkle proof / Merkle update) over children of depth 1021..1023 (real chains, or pruned branches that state such a
    depth), and an ordinary builder over the result: a cell of depth 1024 is never produced, one of depth <= 1023 is never refused"""
    from pytoniq_core.boc.builder import Builder
    d, kind, via = case['d'], case['kind'], case['child']
    c = Builder().store_bits('101').end_cell()
    if via == 'chain':
        for k in range(d):
            c = Builder().store_uint(k % 251, 8).store_ref(c).end_cell()
        child_d0 = d
    else:
        # a pruned branch of level 1 that stands for a subtree of depth d (stored hash arbitrary): level-0 depth d
        c = Builder(type_=1).store_uint(1, 8).store_uint(1, 8).store_bytes(bytes(range(32))).store_uint(d, 16).end_cell()
        child_d0 = d
    if c.get_depth(0) != child_d0:
        return Fail('exotic-depth/child-depth-differs', f'{via} of depth {d} reports {c.get_depth(0)}')
    lvl = 1 if via == 'pruned' else 0          # a Merkle cell looks at its child one level up; the pruned branch's own depth there is 0
    eff = c.get_depth(lvl)

    def merkle():
        b = Builder(type_=3 if kind == 'proof' else 4).store_uint(3 if kind == 'proof' else 4, 8)
        for _ in range(1 if kind == 'proof' else 2):
            b.store_bytes(c.get_hash(lvl))
        for _ in range(1 if kind == 'proof' else 2):
            b.store_uint(eff, 16)
        for _ in range(1 if kind == 'proof' else 2):
            b.store_ref(c)
        return b.end_cell()
    ok, m = call(merkle)
    want = eff + 1
    if want > MAXD:
        if ok:
            return Fail('end_cell/cell-deeper-than-1023-produced', f'Merkle {kind} over a {via} child of depth {eff} at level {lvl}: '
                        f'end_cell() returned a cell reporting depth {[m.get_depth(i) for i in range(4)]}')
        return None
    if not ok:
        return Fail(f'end_cell/refused-within-limits/{exc_sig(m)}', f'Merkle {kind} over a {via} child of depth {eff}: {m!r}')
    if max(m.get_depth(i) for i in range(4)) > MAXD or m.get_depth(0) != want:
        return Fail('end_cell/cell-deeper-than-1023-produced' if m.get_depth(0) > MAXD else 'exotic-depth/merkle-depth-differs',
                    f'Merkle {kind} over a child of depth {eff}: depths {[m.get_depth(i) for i in range(4)]}, expected {want}')
    ok, top = call(lambda: Builder().store_ref(m).end_cell())
    if want + 1 > MAXD:
        if ok:
            return Fail('end_cell/cell-deeper-than-1023-produced', f'ordinary cell over a Merkle {kind} of depth {want}: end_cell() returned a cell '
                        f'reporting depth {top.get_depth(0)}')
    elif not ok:
        return Fail(f'end_cell/refused-within-limits/{exc_sig(top)}', f'ordinary cell over a Merkle {kind} of depth {want}: {top!r}')
    return None


SUBCHECKS.append(Sub('exotic-builders-at-the-depth-limit', check_exotic_depth,
                     enum=lambda tier: [{'d': d, 'kind': k, 'child': v} for d in (1020, 1021, 1022, 1023) for k in ('proof', 'update') for v in ('chain', 'pruned')],
                     classify=lambda c: ['d=%d' % c['d'], c['kind'], c['child']], nontrivial=lambda c: True, shards=(4, 4), case_cpu_s=120,
                     note='Merkle proof / update builders over chains and pruned branches of depth 1020..1023, and an ordinary builder over the result'))


# the same generated cases, several at a time, checked by threads that run at the same time (core.run_overlapping): per-call state
# kept in a place two calls share shows only there
SUBCHECKS.append(__import__('harness.core', fromlist=['overlapped']).overlapped(next(s for s in SUBCHECKS if s.name == 'builder-programs'), k=3, n=(60, 2000)))
