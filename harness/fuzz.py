"""
Coverage-guided campaigns (Atheris / libFuzzer) as an *additional* thorough-tier search for the byte-level parsers.

The fuzz target is a plain sub-check of the property (`Sub(name, check)` whose case is {'raw': <hex>}): the semantic oracle
lives inside the target, so a campaign looks for property violations, not for crashes. The first input whose check returns an
unknown Fail is written to a file and the campaign stops; the harness turns it into an ordinary replay file for that raw
sub-check (the saved input is the reproducible unit — libFuzzer's -seed pins a campaign only approximately).

    run_campaign('C05', 'raw-bytes', runs=200000, seed=1, corpus=[b'..', ...])  ->  {'skipped': why} | {'execs': n, 'found': None | {...}}
    python -m harness.fuzz <PROP> <raw-sub> <outfile> [libFuzzer args]             (the target process)
"""
import json
import os
import subprocess
import sys
import tempfile

HERE = os.path.dirname(os.path.abspath(__file__))
VERIF = os.path.dirname(HERE)


def atheris_available():
    r = subprocess.run([sys.executable, '-c', 'import sys; sys.path.append(%r); import atheris' % os.path.join(VERIF, '.deps')],
                       capture_output=True)
    return r.returncode == 0


def run_campaign(prop_id, raw_sub, runs, seed, corpus, max_len=4096, timeout_s=3000, use_empty_corpus=False):
    if not atheris_available():
        return {'skipped': 'atheris not importable (setup.sh installs it from the offline wheelhouse into /verif/.deps)'}
    from harness.core import OUT
    base = os.path.join(OUT, 'fuzz-tmp')
    os.makedirs(base, exist_ok=True)
    work = tempfile.mkdtemp(prefix=f'{prop_id}-{raw_sub}-', dir=base)
    cdir = os.path.join(work, 'corpus')
    os.makedirs(cdir)
    if not use_empty_corpus:
        for i, b in enumerate(corpus):
            with open(os.path.join(cdir, f'seed{i:04d}'), 'wb') as f:
                f.write(b)
    out = os.path.join(work, 'found.json')
    env = dict(os.environ)
    env['PYTHONPATH'] = VERIF + os.pathsep + env.get('PYTHONPATH', '')
    cmd = [sys.executable, '-m', 'harness.fuzz', prop_id, raw_sub, out, cdir, f'-runs={runs}', f'-seed={seed or 1}',
           f'-max_len={max_len}', '-timeout=60', '-rss_limit_mb=4096', f'-artifact_prefix={work}/', '-print_final_stats=1']
    try:
        r = subprocess.run(cmd, cwd=VERIF, env=env, capture_output=True, timeout=timeout_s)
        log = (r.stderr or b'').decode('utf-8', 'replace')
        rc = r.returncode
    except subprocess.TimeoutExpired as e:
        log = ((e.stderr or b'').decode('utf-8', 'replace')) + '\n[harness] wall-clock budget reached: campaign stopped (inconclusive, not a violation)'
        rc = None
    res = {'execs': 0, 'found': None, 'rc': rc}
    for line in log.splitlines():
        if line.startswith('stat::number_of_executed_units:'):
            res['execs'] = int(line.split(':')[-1])
        elif line.startswith('#') and 'cov:' in line:
            try:
                res['cov'] = int(line.split('cov:')[1].split()[0])
                res['execs'] = max(res['execs'], int(line.split()[0][1:]))
            except (ValueError, IndexError):
                pass
    if os.path.exists(out):
        with open(out) as f:
            res['found'] = json.load(f)
    elif rc not in (0, None):
        res['target_error'] = log[-1500:]
    try:
        res['corpus_files'] = len(os.listdir(cdir))
    except OSError:
        pass
    subprocess.run(['rm', '-rf', work])
    return res


def _target_main(argv):
    prop_id, raw_sub, out = argv[1], argv[2], argv[3]
    sys.path.insert(0, VERIF)
    sys.path.append(os.path.join(VERIF, '.deps'))
    import atheris
    from harness import core
    with atheris.instrument_imports(include=['pytoniq_core']):
        import importlib
        mod = importlib.import_module(f'harness.props.{prop_id.lower()}')
        import pytoniq_core.boc  # noqa: F401  (make sure the parsers are imported under instrumentation)
        import pytoniq_core.tl.generator  # noqa: F401
    sub = {s.name: s for s in mod.SUBCHECKS}[raw_sub]
    known = core.load_known(prop_id)

    def one(data):
        case = {'raw': data.hex()}
        try:
            res = sub.check(case)
        except core.BudgetExceeded as e:
            res = core.Fail(f'budget/{e}', 'operation budget exceeded')
        if res is not None and res.signature not in known:
            with open(out, 'w') as f:
                json.dump({'case': case, 'signature': res.signature, 'detail': res.detail}, f)
            raise RuntimeError('property violation found: ' + res.signature)

    atheris.Setup([argv[0]] + argv[4:], one)
    atheris.Fuzz()


if __name__ == '__main__':
    _target_main(sys.argv)
